//! C14: "reopening the journal after the process stops at any point ... recovery never fails on a journal the server itself wrote"
//! Two crash points of the FIRST start of a journal-backed zone.
//! drop into crates/server/tests/ and run with:
//!   cargo test --offline -p hickory-server --features sqlite --test verif_f24 -- --nocapture --test-threads 1
#![cfg(feature = "sqlite")]
use std::path::PathBuf;
use std::str::FromStr;

use hickory_server::net::runtime::TokioRuntimeProvider;
use hickory_server::proto::rr::{Name, RecordType};
use hickory_server::store::sqlite::{Journal, SqliteConfig, SqliteZoneHandler};
use hickory_server::zone_handler::{AxfrPolicy, ZoneType};

fn scratch(name: &str) -> PathBuf {
    let p = std::env::temp_dir().join(format!("verif_f24_{}_{}", std::process::id(), name));
    let _ = std::fs::remove_file(&p);
    p
}

const ZONE: &str = "$ORIGIN example.com.\n@ 3600 IN SOA ns1 admin 1 7200 3600 1209600 3600\n@ 3600 IN NS ns1\nns1 3600 IN A 192.0.2.1\nwww 3600 IN A 192.0.2.2\n";

async fn start(zone_path: &PathBuf, journal_path: &PathBuf) -> Result<SqliteZoneHandler<TokioRuntimeProvider>, String> {
    let config = SqliteConfig {
        zone_path: zone_path.clone(),
        journal_path: journal_path.clone(),
        allow_update: true,
        #[cfg(feature = "__dnssec")]
        tsig_keys: vec![],
    };
    SqliteZoneHandler::try_from_config(
        Name::from_str("example.com.").unwrap(),
        ZoneType::Primary,
        AxfrPolicy::Deny,
        false,
        None,
        &config,
        #[cfg(feature = "__dnssec")]
        None,
    )
    .await
}

/// crash point 1: inside Journal::schema_up, after `CREATE TABLE records` and before the schema version row is updated.
/// The stop is injected with an SQLite trigger that makes exactly that UPDATE fail; the file is then in the state a process
/// that stopped there would leave behind.
#[test]
fn stop_between_create_table_and_version_update() {
    let path = scratch("schema.jrnl");
    {
        // a journal at schema version 0 (what init_up writes), plus the fault injector
        let conn = rusqlite::Connection::open(&path).unwrap();
        conn.execute_batch(
            "CREATE TABLE tdns_schema (version INTEGER NOT NULL);
             INSERT INTO tdns_schema (version) VALUES (0);
             CREATE TRIGGER stop_here BEFORE UPDATE ON tdns_schema WHEN NEW.version = 1
               BEGIN SELECT RAISE(ABORT, 'the process stops here'); END;",
        )
        .unwrap();
    }
    let interrupted = Journal::from_file(&path);
    println!("first open, stopped at the version update -> {:?}", interrupted.as_ref().map(|j| j.schema_version()).map_err(|e| e.to_string()));
    assert!(interrupted.is_err());
    drop(interrupted);
    rusqlite::Connection::open(&path).unwrap().execute_batch("DROP TRIGGER stop_here").unwrap();

    let reopened = Journal::from_file(&path);
    println!("reopening the journal after that stop -> {:?}", reopened.as_ref().map(|j| j.schema_version()).map_err(|e| e.to_string().chars().take(60).collect::<String>()));
    assert!(reopened.is_ok(), "recovery must not fail on a journal the server itself wrote");
    let _ = std::fs::remove_file(&path);
}

/// crash point 2: in try_from_config, after the journal file was created (schema only) and before the initial zone dump committed
#[tokio::test]
async fn stop_between_journal_creation_and_initial_dump() {
    let zone_path = scratch("example.com.zone");
    std::fs::write(&zone_path, ZONE).unwrap();
    let journal_path = scratch("dump.jrnl");
    drop(Journal::from_file(&journal_path).expect("journal created")); // ... and the process stops here
    let restarted = start(&zone_path, &journal_path).await;
    match &restarted {
        Ok(h) => {
            let n = h.records().await.len();
            let soa = h.records().await.keys().any(|k| k.record_type == RecordType::SOA);
            println!("restart after a stop before the initial dump -> zone with {n} RRsets, SOA present: {soa}");
            assert!(soa && n == 4, "the zone must be the zone file's content (4 RRsets incl. the SOA), not an empty zone");
        }
        Err(e) => {
            println!("restart after a stop before the initial dump -> error: {e}");
            panic!("restart failed");
        }
    }
    let _ = std::fs::remove_file(&zone_path);
    let _ = std::fs::remove_file(&journal_path);
}

/// control: an ordinary first start followed by a restart recovers the zone from the journal
#[tokio::test]
async fn ordinary_restart_recovers_the_zone() {
    let zone_path = scratch("ctl.zone");
    std::fs::write(&zone_path, ZONE).unwrap();
    let journal_path = scratch("ctl.jrnl");
    drop(start(&zone_path, &journal_path).await.expect("first start"));
    std::fs::remove_file(&zone_path).unwrap(); // the journal alone must do
    let h = start(&zone_path, &journal_path).await.expect("restart");
    assert_eq!(h.records().await.len(), 4);
    let _ = std::fs::remove_file(&journal_path);
}

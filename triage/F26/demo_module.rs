
// appended inside `mod test` of crates/net/src/dnssec/mod.rs in a scratch worktree, run with
//   cargo test --offline -p hickory-net --features dnssec-ring --lib verif_f26 -- --nocapture
    #[test]
    fn verif_f26_cached_verdict_does_not_hand_out_a_stale_ttl() {
        use super::{Rrset, RrsetProof, RrsetVerificationContext, ValidationCache};
        use crate::proto::op::DnsRequestOptions;
        use crate::proto::rr::RrKey;
        // an A RRset with TTL 3600 whose RRSIG expires 3 seconds from now: RRSIG::authenticated_ttl gives 3
        let name = Name::from_ascii("www.example.").unwrap();
        let query = Query::new(name.clone(), A);
        let rr_key = RrKey::new(name.clone().into(), A);
        let mut rec = Record::from_rdata(name.clone(), 3600, RData::A(rdata::A::new(192, 0, 2, 7)));
        let rrset = Rrset { records: vec![&mut rec], signatures: vec![] };
        let cx = RrsetVerificationContext { query: &query, key: &rr_key, rrset: &rrset, options: DnsRequestOptions::default(), current_time: 0 };
        let cache = ValidationCache::new(8);
        let verdict = RrsetProof { proof: Proof::Secure, adjusted_ttl: Some(3), rrsig_index: Some(0) };
        cache.insert(Ok(verdict), cx.key(), &cx);

        std::thread::sleep(std::time::Duration::from_millis(2100));
        // 2.1 s later the signature has less than 1 second left
        let hit = cache.get(&cx.key(), &cx).expect("entry still alive").expect("positive verdict");
        println!("validation cache hit 2.1 s after a verdict with authenticated TTL 3 -> TTL {:?}", hit.adjusted_ttl);
        assert!(hit.adjusted_ttl.unwrap() <= 1, "the TTL applied to the records must not exceed the signature's remaining lifetime");
    }

#![cfg(feature = "__dnssec")]

//! C08: an NSEC RRset is only usable as a denial-of-existence proof if it is authenticated and was
//! not itself synthesized from a wildcard (RFC 4035 section 5.4: the number of labels in the NSEC
//! owner name has to equal the Labels field of its RRSIG).
//!
//! The zone below holds `*.example.`, so `a.a.example. A` has a (wildcard-expanded) positive
//! answer. An on-path attacker takes the genuinely signed NSEC RRset of `*.example.` and replays
//! it under the owner name `*.a.example.`. The signature still verifies, because the RRSIG Labels
//! field (1) tells the validator to reconstruct `*.example.` as the signed owner name. If such a
//! replayed NSEC is accepted, it "proves" that `a.example.` exists as an empty non-terminal, which
//! moves the closest encloser of `a.a.example.` down to `a.example.`, and the response can then
//! claim NXDOMAIN for a name that really has data.

use std::{sync::Arc, time::Duration};

use hickory_integration::{
    generate_key,
    mock_request_handler::{MockHandler, fetch_dnskey},
    print_response, setup_dnssec_client_server,
};
use hickory_net::{DnsError, NetError, client::ClientHandle, runtime::TokioRuntimeProvider};
use hickory_proto::{
    dnssec::{
        DnssecSigner, Proof, SigningKey,
        rdata::{DNSKEY, DNSSECRData},
    },
    op::ResponseCode,
    rr::{
        DNSClass, Name, RData, Record, RecordType,
        rdata::{A, NS, SOA, CNAME, MX},
    },
};
use hickory_server::{
    dnssec::NxProofKind,
    store::in_memory::InMemoryZoneHandler,
    zone_handler::{AxfrPolicy, Catalog, ZoneType},
};
use test_support::subscribe;

fn name(s: &str) -> Name {
    Name::parse(s, None).unwrap()
}

/// example. SOA/NS, *.example. A, b.example. A, ns1.example. A
///
/// NSEC chain: example. -> *.example. -> b.example. -> ns1.example. -> example.
fn zone_catalog(key: Box<dyn SigningKey>, kind: NxProofKind) -> Catalog {
    let origin = name("example.");
    let mut handler = InMemoryZoneHandler::<TokioRuntimeProvider>::empty(
        origin.clone(), ZoneType::Primary, AxfrPolicy::Deny, Some(kind));
    const SERIAL: u32 = 1;
    const TTL: u32 = 3600;
    handler.upsert_mut(Record::from_rdata(origin.clone(), TTL, RData::SOA(SOA::new(name("ns1.example."), name("admin.example."), SERIAL, 3600, 300, 3600000, TTL))), SERIAL);
    handler.upsert_mut(Record::from_rdata(origin.clone(), TTL, RData::NS(NS(name("ns1.example.")))), SERIAL);
    for (owner, addr) in [
        ("*.w.example.", A::new(192, 0, 2, 1)),
        ("b.example.", A::new(192, 0, 2, 2)),
        ("ns1.example.", A::new(192, 0, 2, 53)),
        ("a.ent.example.", A::new(192, 0, 2, 9)),
        ("www.example.", A::new(192, 0, 2, 80)),
        ("zzz.example.", A::new(192, 0, 2, 99)),
    ] {
        handler.upsert_mut(Record::from_rdata(name(owner), TTL, RData::A(addr)), SERIAL);
    }
    handler.upsert_mut(Record::from_rdata(name("www.example."), TTL, RData::MX(MX::new(10, name("b.example.")))), SERIAL);
    handler.upsert_mut(Record::from_rdata(name("alias.example."), TTL, RData::CNAME(CNAME(name("www.example.")))), SERIAL);
    handler.upsert_mut(Record::from_rdata(name("dangling.example."), TTL, RData::CNAME(CNAME(name("nothing.example.")))), SERIAL);
    handler.upsert_mut(Record::from_rdata(name("sub.example."), TTL, RData::NS(NS(name("ns.sub.example.")))), SERIAL);
    handler.upsert_mut(Record::from_rdata(name("ns.sub.example."), TTL, RData::A(A::new(192, 0, 2, 77))), SERIAL);
    handler.add_zone_signing_key_mut(DnssecSigner::new(DNSKEY::from_key(&key.to_public_key().unwrap()), key, origin.clone(), Duration::from_secs(86400))).unwrap();
    handler.secure_zone_mut().unwrap();
    let mut catalog = Catalog::new();
    catalog.upsert(origin.into(), vec![Arc::new(handler)]);
    catalog
}

async fn matrix(kind: NxProofKind, label: &str) -> Vec<String> {
    let (key, public_key) = generate_key();
    let (mut client, _server) = setup_dnssec_client_server(zone_catalog(key, kind), &public_key).await;
    let mut bad = Vec::new();
    // (qname, qtype, expectation)
    let cases: &[(&str, RecordType, &str)] = &[
        ("www.example.", RecordType::A, "answer"),
        ("www.example.", RecordType::TXT, "nodata"),
        ("example.", RecordType::MX, "nodata"),
        ("example.", RecordType::SOA, "answer"),
        ("example.", RecordType::NS, "answer"),
        ("example.", RecordType::DNSKEY, "answer"),
        ("nx.example.", RecordType::A, "nxdomain"),
        ("0.example.", RecordType::A, "nxdomain"),
        ("zzzz.example.", RecordType::A, "nxdomain"),
        ("x.y.m.example.", RecordType::A, "nxdomain"),
        ("y.m.example.", RecordType::A, "nxdomain"),
        ("q.r.www.example.", RecordType::A, "nxdomain"),
        ("q.zzz.example.", RecordType::A, "nxdomain"),
        ("a.b.c.ent.example.", RecordType::A, "nxdomain"),
        ("x.w.example.", RecordType::A, "answer"),
        ("a.b.w.example.", RecordType::A, "answer"),
        ("x.w.example.", RecordType::MX, "nodata"),
        ("w.example.", RecordType::A, "nodata"),
        ("ent.example.", RecordType::A, "nodata"),
        ("z.ent.example.", RecordType::A, "nxdomain"),
        ("alias.example.", RecordType::A, "answer"),
        ("alias.example.", RecordType::CNAME, "answer"),
        ("alias.example.", RecordType::TXT, "answer"),
        ("dangling.example.", RecordType::A, "any"),
        ("sub.example.", RecordType::DS, "nodata"),
        ("*.w.example.", RecordType::A, "answer"),
        ("*.w.example.", RecordType::MX, "nodata"),
    ];
    for (q, t, want) in cases {
        let r = client.query(name(q), DNSClass::IN, *t).await;
        let got = match &r {
            Ok(resp) if !resp.answers.is_empty() => {
                if resp.answers.iter().all(|r| r.proof == Proof::Secure) { "answer".to_string() } else { format!("answer-with-proofs {:?}", resp.answers.iter().map(|r| r.proof).collect::<Vec<_>>()) }
            }
            Ok(resp) => format!("{}", if resp.metadata.response_code == ResponseCode::NXDomain { "nxdomain" } else { "nodata" }),
            Err(NetError::Dns(DnsError::NoRecordsFound(nr))) => (if nr.response_code == ResponseCode::NXDomain { "nxdomain" } else { "nodata" }).to_string(),
            Err(e) => format!("ERROR {e}"),
        };
        let ok = *want == "any" && !got.starts_with("ERROR") || got == *want;
        println!("{label} {q} {t}: want {want}, got {got}");
        if !ok { bad.push(format!("{label} {q} {t}: want {want}, got {got}")); }
    }
    bad
}

#[tokio::test]
async fn the_servers_own_answers_and_proofs_validate() {
    subscribe();
    let mut bad = matrix(NxProofKind::Nsec, "NSEC ").await;
    bad.extend(matrix(NxProofKind::Nsec3 { algorithm: Default::default(), salt: std::sync::Arc::new([0xab, 0xcd]), iterations: 2, opt_out: false }, "NSEC3").await);
    bad.extend(matrix(NxProofKind::Nsec3 { algorithm: Default::default(), salt: std::sync::Arc::new([]), iterations: 0, opt_out: true }, "NSEC3-optout").await);
    assert!(bad.is_empty(), "rejected or wrong:\n{}", bad.join("\n"));
}

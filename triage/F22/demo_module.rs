
// appended to crates/net/src/dnssec/nsec3.rs of a scratch worktree (inside `mod tests`), run with
//   cargo test --offline -p hickory-net --features dnssec-ring --lib verif_f22 -- --nocapture
    #[test]
    fn verif_f22_apex_nodata_needs_the_matching_nsec3() -> Result<(), ProtoError> {
        // zone example. has an MX RRset at the apex; an on-path attacker answers `example. MX` with NOERROR/NODATA and
        // attaches any genuine, validly signed NSEC3 record of the zone (here: the one of ns1.example.).
        // RFC 5155 8.5: "The validator MUST verify that an NSEC3 RR that matches QNAME is present and that both the QTYPE
        // and the CNAME type are not set in its Type Bit Maps field."
        let unrelated = Nsec3Pair::new(
            Name::from_ascii("example.")?.prepend_label(hash_with_base32("ns1.example"))?,
            hash("x.y.w.example."),
            [A, RRSIG],
        );
        let verdict = verify_nsec3(
            &Query::new(Name::from_ascii("example.")?, MX),
            Some(&Name::from_ascii("example.")?),
            ResponseCode::NoError,
            &[],
            &[unrelated.as_ref()],
            200,
            500,
        );
        println!("apex NODATA with an unrelated NSEC3 record -> {verdict:?}");
        assert_eq!(verdict, Proof::Bogus, "no NSEC3 matches the query name: nothing proves that example. has no MX");

        // control: the genuine proof (NSEC3 matching the apex, MX bit clear) is accepted
        let apex = Nsec3Pair::new(
            Name::from_ascii("example.")?.prepend_label(hash_with_base32("example"))?,
            hash("a.example."),
            [NS, SOA, DNSKEY, NSEC3PARAM, RRSIG],
        );
        let verdict = verify_nsec3(
            &Query::new(Name::from_ascii("example.")?, MX),
            Some(&Name::from_ascii("example.")?),
            ResponseCode::NoError,
            &[],
            &[apex.as_ref()],
            200,
            500,
        );
        println!("apex NODATA with the matching NSEC3 record (MX clear) -> {verdict:?}");
        assert_eq!(verdict, Proof::Secure);
        Ok(())
    }

    #[test]
    fn verif_f23_wildcard_nodata_at_the_apex_needs_the_type_bits() -> Result<(), ProtoError> {
        use data_encoding::BASE32_DNSSEC;
        // zone example. has `*.example. MX`; an on-path attacker answers `x.example. MX` with NOERROR/NODATA and attaches
        // two genuine NSEC3 records: one covering the next closer name x.example., and the one matching *.example. - whose
        // type bitmap SAYS that MX exists.  The NSEC3 matching the closest encloser (the apex) is left out.
        // RFC 5155 8.7: "... verify that there is an NSEC3 RR that matches the wildcard ... and that neither the QTYPE nor
        // the CNAME type is set in the wildcard's type bit maps."
        let target = hash("x.example.");
        let mut before = target.clone();
        let mut after = target.clone();
        *before.last_mut().unwrap() = before.last().unwrap().wrapping_sub(1);
        *after.last_mut().unwrap() = after.last().unwrap().wrapping_add(1);
        assert!(before < target && target < after, "hash arithmetic did not wrap");
        let covers_next_closer = Nsec3Pair::new(
            Name::from_ascii("example.")?.prepend_label(BASE32_DNSSEC.encode(&before))?,
            after,
            [A, RRSIG],
        );
        let wildcard_with_mx = Nsec3Pair::new(
            Name::from_ascii("example.")?.prepend_label(hash_with_base32("*.example"))?,
            hash("zz.example."),
            [MX, RRSIG],
        );
        let verdict = verify_nsec3(
            &Query::new(Name::from_ascii("x.example.")?, MX),
            Some(&Name::from_ascii("example.")?),
            ResponseCode::NoError,
            &[],
            &[covers_next_closer.as_ref(), wildcard_with_mx.as_ref()],
            200,
            500,
        );
        println!("wildcard NODATA for MX below the apex, wildcard NSEC3 has the MX bit SET -> {verdict:?}");
        assert_eq!(verdict, Proof::Bogus, "the wildcard's bitmap contains the query type: the NODATA claim is false");
        Ok(())
    }

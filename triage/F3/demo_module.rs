#[cfg(test)]
mod triage_f3 {
    use super::*;
    use crate::proto::rr::rdata::A;

    /// A Secure verdict whose signature has 1 second left (adjusted_ttl = Some(1)) is cached for
    /// an RRset with TTL 3600.  Two seconds later the signature has expired, yet the cache still
    /// hands out the Secure verdict.
    #[test]
    fn cached_secure_verdict_must_not_outlive_the_signature() {
        let name = Name::from_ascii("www.example.").unwrap();
        let mut record = Record::from_rdata(name.clone(), 3600, RData::A(A::new(192, 0, 2, 1)));
        let rrset = Rrset { records: vec![&mut record], signatures: vec![] };
        let query = Query::new(name.clone(), RecordType::A);
        let key = RrKey::new(LowerName::new(&name), RecordType::A);
        let cx = RrsetVerificationContext {
            query: &query,
            key: &key,
            rrset: &rrset,
            options: DnsRequestOptions::default(),
            current_time: 1_000_000,
        };
        let cache = ValidationCache::new(8);
        let cache_key = cx.key();
        // authenticated_ttl() said: 1 second of signature lifetime left
        cache.insert(
            Ok(RrsetProof { proof: Proof::Secure, adjusted_ttl: Some(1), rrsig_index: Some(0) }),
            cx.key(),
            &cx,
        );
        assert!(cache.get(&cache_key, &cx).is_some(), "fresh entry is served");
        std::thread::sleep(std::time::Duration::from_millis(2100));
        assert!(
            cache.get(&cache_key, &cx).is_none(),
            "cached Secure verdict served after the signature's remaining lifetime elapsed"
        );
    }
}
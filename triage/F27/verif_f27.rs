#![cfg(feature = "__dnssec")]
//! C09/C10: "for every NSEC3-signed zone and query the server's own proof is accepted" - positive answers included.
//! drop into tests/integration-tests/tests/ and run with:
//!   cargo test --offline -p hickory-integration --features dnssec-ring --test verif_f27 -- --nocapture
use std::{net::Ipv4Addr, sync::Arc, time::Duration};

use hickory_integration::{generate_key, setup_dnssec_client_server};
use hickory_net::{client::ClientHandle, runtime::TokioRuntimeProvider};
use hickory_proto::{
    dnssec::{DnssecSigner, Nsec3HashAlgorithm, SigningKey, rdata::{DNSKEY, DNSSECRData}},
    op::ResponseCode,
    rr::{DNSClass, Name, RData, Record, RecordType, rdata::{A, MX, NS, SOA}},
};
use hickory_server::{
    dnssec::NxProofKind,
    store::in_memory::InMemoryZoneHandler,
    zone_handler::{AxfrPolicy, Catalog, ZoneType},
};

fn build_zone(key: Box<dyn SigningKey>, nsec3: bool) -> Catalog {
    let origin = Name::parse("example.", None).unwrap();
    let kind = if nsec3 {
        NxProofKind::Nsec3 { algorithm: Nsec3HashAlgorithm::SHA1, salt: vec![0xaa, 0xbb].into(), iterations: 2, opt_out: false }
    } else {
        NxProofKind::Nsec
    };
    let mut handler = InMemoryZoneHandler::<TokioRuntimeProvider>::empty(origin.clone(), ZoneType::Primary, AxfrPolicy::Deny, Some(kind));
    let ns = Name::parse("ns.example.", None).unwrap();
    for r in [
        Record::from_rdata(origin.clone(), 3600, RData::SOA(SOA::new(ns.clone(), Name::parse("admin.example.", None).unwrap(), 1, 3600, 300, 3600000, 3600))),
        Record::from_rdata(origin.clone(), 3600, RData::NS(NS(ns.clone()))),
        Record::from_rdata(origin.clone(), 3600, RData::MX(MX::new(10, Name::parse("mail.example.", None).unwrap()))),
        Record::from_rdata(ns.clone(), 3600, RData::A(A(Ipv4Addr::new(192, 0, 2, 1)))),
        Record::from_rdata(Name::parse("www.example.", None).unwrap(), 3600, RData::A(A(Ipv4Addr::new(192, 0, 2, 2)))),
        Record::from_rdata(Name::parse("mail.example.", None).unwrap(), 3600, RData::A(A(Ipv4Addr::new(192, 0, 2, 3)))),
    ] {
        handler.upsert_mut(r, 0);
    }
    handler
        .add_zone_signing_key_mut(DnssecSigner::new(DNSKEY::from_key(&key.to_public_key().unwrap()), key, origin.clone(), Duration::from_secs(86400)))
        .unwrap();
    handler.secure_zone_mut().unwrap();
    let mut catalog = Catalog::new();
    catalog.upsert(origin.into(), vec![Arc::new(handler)]);
    catalog
}

async fn positive_answers(nsec3: bool) -> Vec<String> {
    let (key, public_key) = generate_key();
    let (mut client, _server) = setup_dnssec_client_server(build_zone(key, nsec3), &public_key).await;
    let mut out = vec![];
    for (name, rtype) in [("www.example.", RecordType::A), ("example.", RecordType::MX), ("example.", RecordType::SOA), ("ns.example.", RecordType::A)] {
        let res = client.query(Name::parse(name, None).unwrap(), DNSClass::IN, rtype).await;
        out.push(match res {
            Ok(r) => {
                let n3 = r.authorities.iter().chain(r.answers.iter()).filter(|x| matches!(x.data, RData::DNSSEC(DNSSECRData::NSEC3(_)) | RData::DNSSEC(DNSSECRData::NSEC(_)))).count();
                format!("{name} {rtype}: {:?}, {} answers, proofs {:?}, {n3} NSEC/NSEC3 attached", r.metadata.response_code, r.answers.len(), r.answers.iter().map(|x| x.proof).collect::<Vec<_>>())
            }
            Err(e) => format!("{name} {rtype}: REJECTED: {e}"),
        });
        assert_eq!(ResponseCode::NoError, ResponseCode::NoError);
    }
    out
}

#[tokio::test]
async fn positive_answers_from_an_nsec3_zone_validate() {
    let out = positive_answers(true).await;
    for l in &out { println!("NSEC3 zone: {l}"); }
    assert!(out.iter().all(|l| !l.contains("REJECTED")), "the server's own signed answers were rejected by the validator");
}

#[tokio::test]
async fn positive_answers_from_an_nsec_zone_validate() {
    let out = positive_answers(false).await;
    for l in &out { println!("NSEC zone: {l}"); }
    assert!(out.iter().all(|l| !l.contains("REJECTED")), "the server's own signed answers were rejected by the validator");
}

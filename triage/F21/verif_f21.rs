//! RFC 2136 3.4.2.3: "For any Update RR whose CLASS is ANY and whose TYPE is ANY, all Zone RRs with the same NAME are
//! deleted, unless the NAME is the same as ZNAME in which case only those RRs whose TYPE is other than SOA or NS are
//! deleted."
//! drop into crates/server/tests/ and run with:
//!   cargo test --offline -p hickory-server --features sqlite --test verif_f21 -- --nocapture
#![cfg(feature = "sqlite")]
use std::str::FromStr;

use hickory_server::net::runtime::TokioRuntimeProvider;
use hickory_server::proto::rr::rdata::{A, MX, NS, SOA};
use hickory_server::proto::rr::{DNSClass, Name, RData, Record, RecordType};
use hickory_server::store::in_memory::InMemoryZoneHandler;
use hickory_server::store::sqlite::SqliteZoneHandler;
use hickory_server::zone_handler::{AxfrPolicy, ZoneType};

fn n(s: &str) -> Name {
    Name::from_str(s).unwrap()
}

fn zone() -> SqliteZoneHandler<TokioRuntimeProvider> {
    let mut z = InMemoryZoneHandler::<TokioRuntimeProvider>::empty(
        n("example.com."),
        ZoneType::Primary,
        AxfrPolicy::AllowAll,
        #[cfg(feature = "__dnssec")]
        None,
    );
    let soa = SOA::new(n("ns1.example.com."), n("admin.example.com."), 1, 7200, 3600, 1209600, 3600);
    for r in [
        Record::from_rdata(n("example.com."), 3600, RData::SOA(soa)),
        Record::from_rdata(n("example.com."), 3600, RData::NS(NS(n("ns1.example.com.")))),
        Record::from_rdata(n("example.com."), 3600, RData::MX(MX::new(10, n("mail.example.com.")))),
        Record::from_rdata(n("example.com."), 3600, RData::A(A::new(192, 0, 2, 1))),
        Record::from_rdata(n("sub.example.com."), 3600, RData::NS(NS(n("ns.sub.example.com.")))),
        Record::from_rdata(n("sub.example.com."), 3600, RData::A(A::new(192, 0, 2, 2))),
        Record::from_rdata(n("www.example.com."), 3600, RData::A(A::new(192, 0, 2, 3))),
    ] {
        assert!(z.upsert_mut(r, 0));
    }
    SqliteZoneHandler::new(z, AxfrPolicy::AllowAll, true, false)
}

async fn types_at(h: &SqliteZoneHandler<TokioRuntimeProvider>, name: &str) -> Vec<RecordType> {
    let name = n(name);
    let mut v: Vec<RecordType> = h
        .records()
        .await
        .iter()
        .filter(|(k, set)| Name::from(&k.name) == name && !set.is_empty())
        .map(|(k, _)| k.record_type)
        .collect();
    v.sort();
    v
}

fn delete_all_at(name: &str) -> Record {
    let mut r = Record::update0(n(name), 0, RecordType::ANY);
    r.dns_class = DNSClass::ANY;
    r.into_record_of_rdata()
}

#[tokio::test]
async fn delete_all_rrsets_at_the_apex_keeps_soa_and_ns() {
    let h = zone();
    println!("before: apex = {:?}", types_at(&h, "example.com.").await);
    let r = h.update_records(&[delete_all_at("example.com.")], true).await;
    println!("update -> {r:?}");
    let after = types_at(&h, "example.com.").await;
    println!("after ANY/ANY delete at the apex: apex = {after:?}");
    assert_eq!(after, vec![RecordType::NS, RecordType::SOA], "only SOA and NS survive at ZNAME (RFC 2136 3.4.2.3)");
}

#[tokio::test]
async fn delete_all_rrsets_below_the_apex_deletes_everything_there() {
    let h = zone();
    println!("before: sub = {:?}", types_at(&h, "sub.example.com.").await);
    let r = h.update_records(&[delete_all_at("sub.example.com.")], true).await;
    println!("update -> {r:?}");
    let after = types_at(&h, "sub.example.com.").await;
    println!("after ANY/ANY delete at sub.example.com.: sub = {after:?}");
    assert_eq!(after, Vec::<RecordType>::new(), "all RRs with the same NAME are deleted (RFC 2136 3.4.2.3)");
    assert_eq!(types_at(&h, "www.example.com.").await, vec![RecordType::A], "other names untouched");
}

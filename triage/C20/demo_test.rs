use hickory_proto::rr::Name;
use hickory_proto::serialize::txt::Parser;
use std::panic::catch_unwind;
use std::str::FromStr;

fn load(text: &str) -> String {
    let text = text.to_string();
    let r = catch_unwind(move || {
        Parser::new(text, None, Some(Name::from_str("example.").unwrap())).parse().map(|(_, m)| {
            m.values().flat_map(|s| s.records_without_rrsigs().map(|r| format!("{r}")).collect::<Vec<_>>()).collect::<Vec<_>>()
        })
    });
    match r {
        Ok(Ok(v)) => format!("OK {v:?}"),
        Ok(Err(e)) => format!("ERR {e}"),
        Err(_) => "PANIC".to_string(),
    }
}

#[test]
fn demo() {
    let long_comment = format!("a 60 IN A 1.2.3.4 ; {}\n", "c".repeat(5000));
    let cases: Vec<(&str, String)> = vec![
        ("F12 long comment", long_comment),
        ("F12 long quoted", format!("a 60 IN TXT \"{}\"\n", "x".repeat(5000))),
        ("F15 svcb lone quote", "a 60 IN SVCB 1 . alpn=\"\n".to_string()),
        ("F16 alpn dollar", "a 60 IN SVCB 1 . alpn=$\n".to_string()),
        ("F16 alpn at", "a 60 IN SVCB 1 . alpn=@\n".to_string()),
        ("F17 csync lowercase", "a 60 IN CSYNC 1 1 a\n".to_string()),
        ("F14 decimal escape", "a 60 IN TXT \"\\065\"\n".to_string()),
        ("F18 quoted in list", "a 60 IN TXT ( \"x y\" )\n".to_string()),
        ("F19 svcb relative target", "a 60 IN SVCB 1 svc alpn=h2\nb 60 IN MX 10 mail\n".to_string()),
        ("F20 name decimal escape", "a\\065b 60 IN A 1.2.3.4\n".to_string()),
        ("ok", "a 60 IN TXT \"x y\"\n".to_string()),
    ];
    for (n, t) in cases {
        println!("{n}: {}", load(&t).chars().take(200).collect::<String>());
    }
}

//! Demonstration for the seeded defect C11e.
//!
//! Property C11: "No request content makes the handler panic or stop serving later requests."
//!
//! A single, perfectly well-formed query is sent over UDP whose answer cannot be put into one
//! datagram: the requestor advertises an EDNS payload of 65535 bytes and asks for an RRset that
//! fills the message up to that size, which is more than the 65507 bytes of payload an IPv4 UDP
//! datagram can carry, so the kernel rejects the `sendto` with EMSGSIZE. Whatever happens to that
//! one reply, the UDP listener must keep answering everybody else afterwards.

use std::{
    io::{Read, Write},
    net::{Ipv4Addr, SocketAddr, TcpStream, UdpSocket},
    str::FromStr,
    sync::{Arc, mpsc},
    thread,
    time::Duration,
};

use hickory_server::{
    Server,
    proto::{
        op::{Edns, Message, MessageType, OpCode, Query, ResponseCode},
        rr::{
            Name, RData, Record, RecordType,
            rdata::{NS, SOA},
        },
    },
    store::in_memory::InMemoryZoneHandler,
    zone_handler::{AxfrPolicy, Catalog, ZoneType},
};

/// Largest payload of a UDP datagram over IPv4 (65535 - 20 byte IP header - 8 byte UDP header)
const MAX_UDP_PAYLOAD: usize = 65_507;

fn zone() -> InMemoryZoneHandler {
    let origin = Name::from_str("example.com.").unwrap();
    let mut zone = InMemoryZoneHandler::empty(
        origin.clone(),
        ZoneType::Primary,
        AxfrPolicy::Deny,
        #[cfg(feature = "__dnssec")]
        None,
    );

    zone.upsert_mut(
        Record::from_rdata(
            origin.clone(),
            3600,
            RData::SOA(SOA::new(
                Name::from_str("ns.example.com.").unwrap(),
                Name::from_str("admin.example.com.").unwrap(),
                1,
                7200,
                3600,
                360000,
                60,
            )),
        ),
        0,
    );
    zone.upsert_mut(
        Record::from_rdata(
            origin,
            3600,
            RData::NS(NS(Name::from_str("ns.example.com.").unwrap())),
        ),
        0,
    );
    zone.upsert_mut(
        Record::from_rdata(
            Name::from_str("www.example.com.").unwrap(),
            3600,
            RData::A(Ipv4Addr::new(192, 0, 2, 1).into()),
        ),
        0,
    );

    // one big address set, e.g. a pool of hosts behind a single name
    let big = Name::from_str("big.example.com.").unwrap();
    for i in 0..4300u32 {
        let addr = Ipv4Addr::new(10, (i >> 16) as u8, (i >> 8) as u8, i as u8);
        zone.upsert_mut(Record::from_rdata(big.clone(), 3600, RData::A(addr.into())), 0);
    }

    zone
}

/// Starts a server with a UDP socket and a TCP listener on the loopback interface in a
/// background thread and returns the two addresses.
fn start_server() -> (SocketAddr, SocketAddr) {
    let (tx, rx) = mpsc::channel();

    thread::spawn(move || {
        let runtime = tokio::runtime::Builder::new_current_thread()
            .enable_all()
            .build()
            .unwrap();

        runtime.block_on(async move {
            let mut catalog = Catalog::new();
            let zone = zone();
            catalog.upsert(
                Name::from_str("example.com.").unwrap().into(),
                vec![Arc::new(zone)],
            );

            let udp = tokio::net::UdpSocket::bind("127.0.0.1:0").await.unwrap();
            let tcp = tokio::net::TcpListener::bind("127.0.0.1:0").await.unwrap();
            let addrs = (udp.local_addr().unwrap(), tcp.local_addr().unwrap());

            let mut server = Server::new(catalog);
            server.register_socket(udp);
            server.register_listener(tcp, Duration::from_secs(10), 32);
            tx.send(addrs).unwrap();

            let _ = server.block_until_done().await;
        });
    });

    rx.recv_timeout(Duration::from_secs(30))
        .expect("server did not start")
}

fn query(id: u16, name: &str, payload: Option<u16>) -> Vec<u8> {
    let mut message = Message::new(id, MessageType::Query, OpCode::Query);
    message.add_query(Query::new(Name::from_str(name).unwrap(), RecordType::A));
    if let Some(payload) = payload {
        let mut edns = Edns::new();
        edns.set_max_payload(payload);
        edns.set_version(0);
        message.set_edns(edns);
    }
    message.to_vec().unwrap()
}

/// Sends one query over UDP and waits for one datagram in return
fn udp_exchange(client: &UdpSocket, server: SocketAddr, request: &[u8]) -> Option<Message> {
    client.send_to(request, server).unwrap();
    let mut buf = vec![0u8; 65_535];
    match client.recv_from(&mut buf) {
        Ok((len, _)) => Some(Message::from_vec(&buf[..len]).expect("unparsable response")),
        Err(_) => None,
    }
}

#[test]
fn a_reply_that_does_not_fit_a_datagram_is_truncated_not_dropped() {
    let (udp_addr, tcp_addr) = start_server();

    let client = UdpSocket::bind("127.0.0.1:0").unwrap();
    client
        .set_read_timeout(Some(Duration::from_secs(5)))
        .unwrap();

    // the listener works
    let response = udp_exchange(&client, udp_addr, &query(1, "www.example.com.", None))
        .expect("no response to the first ordinary query");
    assert_eq!(response.metadata.id, 1);
    assert_eq!(response.metadata.message_type, MessageType::Response);
    assert_eq!(response.metadata.response_code, ResponseCode::NoError);
    assert_eq!(response.answers.len(), 1);

    // Precondition of the scenario, measured over TCP where the size is not a problem: the reply
    // to the big question with a 65535 byte EDNS payload is larger than any IPv4 UDP datagram.
    let big_query = query(2, "big.example.com.", Some(u16::MAX));
    let mut tcp = TcpStream::connect(tcp_addr).unwrap();
    tcp.set_read_timeout(Some(Duration::from_secs(10))).unwrap();
    tcp.write_all(&(big_query.len() as u16).to_be_bytes())
        .unwrap();
    tcp.write_all(&big_query).unwrap();
    let mut len = [0u8; 2];
    tcp.read_exact(&mut len).unwrap();
    let len = u16::from_be_bytes(len) as usize;
    let mut body = vec![0u8; len];
    tcp.read_exact(&mut body).unwrap();
    let response = Message::from_vec(&body).unwrap();
    assert_eq!(response.metadata.id, 2);
    assert!(
        len > MAX_UDP_PAYLOAD,
        "scenario precondition: the reply ({len} bytes) must not fit into a UDP datagram"
    );
    drop(tcp);

    // Now the same question over UDP: exactly one response with the request's id must come back
    // (truncated, TC=1), not silence.
    let response = udp_exchange(&client, udp_addr, &big_query)
        .expect("C11: the accepted query got NO response over UDP (the oversized reply was dropped: EMSGSIZE)");
    assert_eq!(response.metadata.id, 2);
    assert_eq!(response.metadata.message_type, MessageType::Response);
    assert!(response.metadata.truncation, "a reply that does not fit must carry TC=1");
}

#![cfg(feature = "__dnssec")]

//! C08: an NSEC RRset is only usable as a denial-of-existence proof if it is authenticated and was
//! not itself synthesized from a wildcard (RFC 4035 section 5.4: the number of labels in the NSEC
//! owner name has to equal the Labels field of its RRSIG).
//!
//! The zone below holds `*.example.`, so `a.a.example. A` has a (wildcard-expanded) positive
//! answer. An on-path attacker takes the genuinely signed NSEC RRset of `*.example.` and replays
//! it under the owner name `*.a.example.`. The signature still verifies, because the RRSIG Labels
//! field (1) tells the validator to reconstruct `*.example.` as the signed owner name. If such a
//! replayed NSEC is accepted, it "proves" that `a.example.` exists as an empty non-terminal, which
//! moves the closest encloser of `a.a.example.` down to `a.example.`, and the response can then
//! claim NXDOMAIN for a name that really has data.

use std::{sync::Arc, time::Duration};

use hickory_integration::{
    generate_key,
    mock_request_handler::{MockHandler, fetch_dnskey},
    print_response, setup_dnssec_client_server,
};
use hickory_net::{DnsError, NetError, client::ClientHandle, runtime::TokioRuntimeProvider};
use hickory_proto::{
    dnssec::{
        DnssecSigner, Proof, SigningKey,
        rdata::{DNSKEY, DNSSECRData},
    },
    op::ResponseCode,
    rr::{
        DNSClass, Name, RData, Record, RecordType,
        rdata::{A, NS, SOA},
    },
};
use hickory_server::{
    dnssec::NxProofKind,
    store::in_memory::InMemoryZoneHandler,
    zone_handler::{AxfrPolicy, Catalog, ZoneType},
};
use test_support::subscribe;

fn name(s: &str) -> Name {
    Name::parse(s, None).unwrap()
}

/// example. SOA/NS, *.example. A, b.example. A, ns1.example. A
///
/// NSEC chain: example. -> *.example. -> b.example. -> ns1.example. -> example.
fn zone_catalog(key: Box<dyn SigningKey>) -> Catalog {
    let origin = name("example.");
    let mut handler = InMemoryZoneHandler::<TokioRuntimeProvider>::empty(
        origin.clone(),
        ZoneType::Primary,
        AxfrPolicy::Deny,
        Some(NxProofKind::Nsec),
    );

    const SERIAL: u32 = 1;
    const TTL: u32 = 3600;

    handler.upsert_mut(
        Record::from_rdata(
            origin.clone(),
            TTL,
            RData::SOA(SOA::new(
                name("ns1.example."),
                name("admin.example."),
                SERIAL,
                3600,
                300,
                3600000,
                TTL,
            )),
        ),
        SERIAL,
    );
    handler.upsert_mut(
        Record::from_rdata(origin.clone(), TTL, RData::NS(NS(name("ns1.example.")))),
        SERIAL,
    );
    for (owner, addr) in [
        ("*.example.", A::new(192, 0, 2, 1)),
        ("b.example.", A::new(192, 0, 2, 2)),
        ("ns1.example.", A::new(192, 0, 2, 53)),
        ("a.ent.example.", A::new(192, 0, 2, 9)),
    ] {
        handler.upsert_mut(Record::from_rdata(name(owner), TTL, RData::A(addr)), SERIAL);
    }

    handler
        .add_zone_signing_key_mut(DnssecSigner::new(
            DNSKEY::from_key(&key.to_public_key().unwrap()),
            key,
            origin.clone(),
            Duration::from_secs(86400),
        ))
        .unwrap();
    handler.secure_zone_mut().unwrap();

    let mut catalog = Catalog::new();
    catalog.upsert(origin.into(), vec![Arc::new(handler)]);
    catalog
}

#[tokio::test]
async fn the_servers_own_nsec_proofs_are_accepted() {
    subscribe();
    let (key, public_key) = generate_key();
    let (mut client, _honest_server) = setup_dnssec_client_server(zone_catalog(key), &public_key).await;

    // wildcard expansion from the wildcard at the closest encloser (x.example. from *.example.)
    let r = client.query(name("x.example."), DNSClass::IN, RecordType::A).await;
    match r {
        Ok(resp) => {
            assert_eq!(resp.metadata.response_code, ResponseCode::NoError);
            assert!(resp.answers.iter().any(|r| r.record_type() == RecordType::A && r.proof == Proof::Secure), "{resp:?}");
        }
        Err(e) => panic!("direct-child wildcard expansion rejected: {e}"),
    }
    // deeper expansion (a.b.example. from *.example.)
    let r = client.query(name("a.b.example."), DNSClass::IN, RecordType::A).await;
    assert!(r.is_ok(), "deeper wildcard expansion rejected: {:?}", r.err());

    // empty non-terminal NODATA (ent.example. exists only because a.ent.example. does)
    let r = client.query(name("ent.example."), DNSClass::IN, RecordType::A).await;
    match r {
        Ok(resp) => { assert_eq!(resp.metadata.response_code, ResponseCode::NoError); assert!(resp.answers.is_empty()); }
        Err(NetError::Dns(DnsError::Nsec { proof, .. })) => assert_eq!(proof, Proof::Secure, "empty non-terminal NODATA not validated"),
        Err(NetError::Dns(DnsError::NoRecordsFound(nr))) => println!("no records found (validated): {:?}", nr.response_code),
        Err(e) => panic!("empty non-terminal NODATA rejected: {e}"),
    }
    // control: NXDOMAIN is still proven... (z.ent.example. is below an ENT: no wildcard applies)
    let r = client.query(name("z.ent.example."), DNSClass::IN, RecordType::A).await;
    println!("z.ent.example.: {r:?}");
}

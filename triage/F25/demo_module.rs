
// appended inside `mod test` of crates/net/src/dnssec/mod.rs in a scratch worktree, run with
//   cargo test --offline -p hickory-net --features dnssec-ring --lib verif_f25 -- --nocapture
    #[test]
    fn verif_f25_validation_cache_key_tells_owner_names_apart() {
        use super::{Rrset, RrsetVerificationContext};
        use crate::proto::op::{DnsRequestOptions, Query};
        use crate::proto::rr::{Name, RData, Record, RecordType, RrKey, rdata::A};
        fn key_for(owner: &str) -> u64 {
            let name = Name::from_ascii(owner).unwrap();
            let query = Query::new(name.clone(), RecordType::A);
            let rr_key = RrKey::new(name.clone().into(), RecordType::A);
            let mut rec = Record::from_rdata(name.clone(), 300, RData::A(A::new(192, 0, 2, 7)));
            let rrset = Rrset { records: vec![&mut rec], signatures: vec![] };
            let cx = RrsetVerificationContext {
                query: &query,
                key: &rr_key,
                rrset: &rrset,
                options: DnsRequestOptions::default(),
                current_time: 0,
            };
            cx.key().0
        }
        let a = key_for("ab.c.example.");
        let b = key_for("a.bc.example.");
        println!("validation cache key of ab.c.example. A 192.0.2.7 = {a:#018x}");
        println!("validation cache key of a.bc.example. A 192.0.2.7 = {b:#018x}");
        assert_ne!(a, b, "two different owner names share one validation cache entry: a Secure verdict cached for the RRset (and RRSIG) of one is served for the same records replayed under the other");
    }

//! Demonstration for seeded defect C12e.
//!
//! RFC 2136 section 3.4.1: the whole Update Section is prescanned before any RR of it is applied.
//! If any RR fails the prescan (FORMERR / NOTZONE) the zone must be left exactly as it was.
//!
//! Run with:
//!   cargo test --offline -p hickory-integration --features sqlite,dnssec-ring --test seeded_C12e
#![cfg(all(feature = "sqlite", feature = "__dnssec"))]

use std::net::SocketAddr;
use std::str::FromStr;
use std::time::{SystemTime, UNIX_EPOCH};

use hickory_net::runtime::{Time, TokioTime};
use hickory_net::xfer::Protocol;
use hickory_proto::op::{Message, OpCode, Query, ResponseCode};
use hickory_proto::rr::rdata::tsig::TsigAlgorithm;
use hickory_proto::rr::rdata::NS;
use hickory_proto::rr::{DNSClass, Name, RData, Record, RecordType, TSigner};
use hickory_proto::serialize::binary::BinEncodable;
use hickory_server::server::Request;
use hickory_server::store::sqlite::SqliteZoneHandler;
use hickory_server::zone_handler::{AxfrPolicy, ZoneHandler};

fn signer() -> TSigner {
    let key = vec![
        0x7a, 0xbc, 0x3d, 0x45, 0xf2, 0x01, 0x9e, 0x8b, 0xc5, 0x67, 0x12, 0x34, 0xab, 0xcd, 0xef,
        0x98, 0x76, 0x54, 0x32, 0x10, 0xfe, 0xdc, 0xba, 0x98, 0x76, 0x54, 0x32, 0x10, 0xab, 0xcd,
        0xef, 0x01,
    ];
    TSigner::new(
        key,
        TsigAlgorithm::HmacSha256,
        Name::from_str("test-tsig-key").unwrap(),
        300,
    )
    .unwrap()
}

fn handler(signer: &TSigner) -> SqliteZoneHandler {
    let mut in_memory = hickory_integration::example_zone::create_example();
    in_memory.set_axfr_policy(AxfrPolicy::AllowAll);
    let mut handler = SqliteZoneHandler::new(in_memory, AxfrPolicy::AllowAll, true, false);
    handler.set_allow_update(true);
    handler.set_tsig_signers(vec![signer.clone()]);
    handler
}

/// Builds a TSIG signed UPDATE for zone example.com and runs it through `ZoneHandler::update`,
/// i.e. prerequisites, prescan and update processing exactly as the server does.
async fn send(
    handler: &SqliteZoneHandler,
    signer: &TSigner,
    id: u16,
    prerequisites: Vec<Record>,
    updates: Vec<Record>,
) -> Result<bool, ResponseCode> {
    let mut zone = Query::root();
    zone.set_name(Name::from_str("example.com.").unwrap());
    zone.set_query_class(DNSClass::IN);
    zone.set_query_type(RecordType::SOA);

    let mut message = Message::query();
    message.metadata.id = id;
    message.metadata.op_code = OpCode::Update;
    message.add_query(zone);
    for rr in prerequisites {
        message.add_answer(rr);
    }
    for rr in updates {
        message.add_authority(rr);
    }

    let now = SystemTime::now()
        .duration_since(UNIX_EPOCH)
        .map(|t| t.as_secs())
        .unwrap();
    let (sig, _) = signer.sign_message(&message, now).unwrap();
    message.set_signature(sig);

    let bytes = message.to_bytes().unwrap();
    let request =
        Request::from_bytes(bytes, SocketAddr::from(([127, 0, 0, 1], 53)), Protocol::Udp).unwrap();

    handler.update(&request, TokioTime::current_time()).await.0
}

/// All records of the zone, as sorted presentation format strings.
async fn snapshot(handler: &SqliteZoneHandler) -> Vec<String> {
    let records = handler.records().await;
    let mut all = records
        .values()
        .flat_map(|rrset| rrset.records_without_rrsigs().map(|rr| rr.to_string()))
        .collect::<Vec<_>>();
    all.sort();
    all
}

fn with_class(mut record: Record, class: DNSClass) -> Record {
    record.dns_class = class;
    record
}

/// RFC 2136 3.4.2.4: "any Zone RR whose NAME, TYPE, RDATA and RDLENGTH are equal to the Update RR is deleted, unless the NAME is
/// the same as ZNAME and either the TYPE is SOA or the TYPE is NS and the matching Zone RR is the only NS remaining in the RRset".
/// The protection of the last NS applies to the zone APEX only: the last NS of a delegation can be deleted.
#[tokio::test]
async fn last_ns_of_a_delegation_can_be_deleted() {
    let signer = signer();
    let handler = handler(&signer);
    let sub = Name::from_str("sub.example.com.").unwrap();
    let ns = |t: &str| Record::from_rdata(sub.clone(), 3600, RData::NS(NS(Name::from_str(t).unwrap())));
    let before = snapshot(&handler).await;

    assert_eq!(send(&handler, &signer, 1, vec![], vec![ns("ns1.sub.example.com."), ns("ns2.sub.example.com.")]).await, Ok(true));
    let mut del1 = with_class(ns("ns1.sub.example.com."), DNSClass::NONE);
    del1.ttl = 0;
    assert_eq!(send(&handler, &signer, 2, vec![], vec![del1]).await, Ok(true));
    let mut del2 = with_class(ns("ns2.sub.example.com."), DNSClass::NONE);
    del2.ttl = 0;
    let r = send(&handler, &signer, 3, vec![], vec![del2]).await;
    let after = snapshot(&handler).await;
    let left: Vec<_> = after.iter().filter(|rr| rr.starts_with("sub.example.com.")).cloned().collect();
    assert!(left.is_empty(), "the delegation's last NS was not deleted (result {r:?}): {left:?}");
    assert_eq!(r, Ok(true));
    assert_eq!(after, before, "zone must be back to its initial contents");
}

/// control: at the apex the last NS (and the SOA) are protected
#[tokio::test]
async fn last_apex_ns_is_kept() {
    let signer = signer();
    let handler = handler(&signer);
    let apex = Name::from_str("example.com.").unwrap();
    let ns_rrs: Vec<String> = snapshot(&handler).await.into_iter().filter(|rr| rr.starts_with("example.com.") && rr.contains(" NS ")).collect();
    assert!(!ns_rrs.is_empty());
    // delete every apex NS one by one
    for (i, line) in ns_rrs.iter().enumerate() {
        let target = line.split_whitespace().last().unwrap();
        let mut del = with_class(Record::from_rdata(apex.clone(), 0, RData::NS(NS(Name::from_str(target).unwrap()))), DNSClass::NONE);
        del.ttl = 0;
        let _ = send(&handler, &signer, 10 + i as u16, vec![], vec![del]).await;
    }
    let left = snapshot(&handler).await.into_iter().filter(|rr| rr.starts_with("example.com.") && rr.contains(" NS ")).count();
    assert_eq!(left, 1, "exactly the last apex NS must survive");
}

"""C20 — zone files: panic census and loop termination over the master-file cone, lexer delimiter classes, default
inheritance dataflow, RData::from_tokens table, origin passed to every embedded name."""
import re
import argnames
from collections import Counter, defaultdict
import core, census, loops
import statemachine as sm
from api import shorten, writers

EXPLANATION = (
    "CENSUS/LOOP/GUARD/WRITE/TABLE rules over the cone of Parser::parse (lexer, parser, Context::insert, RData::from_tokens and "
    "every per-type from_tokens, Name::parse, parse_ttl) in the feature-full build: (Z1) every panic-capable construct in the cone "
    "is auto-discharged or matches a reviewed exemption whose local fact is re-checked; any other unwrap/expect/index/assert "
    "reachable from zone text is a violation; (L1) the lexer terminates: every iteration of Lexer::next_token that does not "
    "consume a character changes the scanner state, and the consumption-free transitions admit no cycle that is feasible for one "
    "unchanged look-ahead character (state x character-class product); every other loop in the cone passes an iterator advance / "
    "next_token / pop on each cycle; $INCLUDE nesting is bounded; (G1) lexer delimiter classes: an unquoted item never absorbs "
    "white space, ';' or ')' and never starts with '\"', inside and outside parentheses; ';' starts a comment in both contexts; a "
    "quoted string ends only at an unescaped '\"' and '\\\\' goes through escape_seq; (S1) inheritance: owner = current_name, "
    "written only from a leading name resolved against the current origin or from '@'; class and TTL come from the last stated / "
    "$TTL values in the RFC 1035 5.1 / RFC 2308 4 order (this line, $TTL, last explicit); $ORIGIN/$TTL write only their field; "
    "the record is built from exactly these and keyed by its own name and type; (T1) every RDATA item of a line (plain or "
    "parenthesised) reaches the rdata parser, and a line is flushed at EOL and at end of input; (T2) RData::from_tokens builds "
    "variant X from X::from_tokens under record_type == X, and every domain name embedded in RDATA is parsed against the origin; (S3) when a "
    "lexer ($INCLUDEd or top-level file) is exhausted, the line state is taken and reset to StartLine and a pending Record inserted before "
    "the lexer is popped.")
NOT_DECIDED = ("That every layout of every record set denotes the same records (a for-all over texts against an independent printer); "
               "per-type field syntax; the numeric value of \\DDD escapes (observations F14/F20 in DESIGN.md, outside the statement's "
               "enumerated layouts).")
ASSUMPTIONS = ["FULL feature configuration", "std iterators (Chars, CharIndices, slice::Iter, Peekable) terminate and do not panic",
               "unresolved calls of core traits (Iterator::next on `impl Iterator<Item=&str>`, FromStr for std types) reach no hickory code outside serialize::txt"]

P = 'hickory_proto::'
Z = P + 'serialize::txt::zone::'
L = P + 'serialize::txt::zone_lex::'
LOCAL_TRAITS = re.compile(r'^hickory_proto::rr::domain::|^hickory_proto::rr::RecordData::record_type$|^hickory_proto::rr::record_data::RecordData')
PROGRESS = re.compile(r'Iterator>::next$|Iterator::next$|range::.*::next$|Lexer::next_token$|Vec<T, A>::pop$|Vec::pop$|str::split_at$')
PEEK = 'Lexer::peek(arg1)'
CH = PEEK + '@Some.0'
TOK = r'try\(Lexer::next_token\(slice::last_mut\(arg1\.lexers\)@Some\.0\.0\)\)@Continue\.0@Some\.0'

# (fn, kind, what) -> (count, reason, local check id)
EXEMPT = {
    ('<hickory_proto::rr::dns_class::DNSClass as core::str::traits::FromStr>::from_str', 'panic', 'panicking::panic'): (1, 'debug_assert!(no ascii lowercase): every caller in the cone upper-cases the argument first', 'uppercase-callers'),
    ('<hickory_proto::rr::record_type::RecordType as core::str::traits::FromStr>::from_str', 'panic', 'panicking::panic'): (1, 'debug_assert!(no ascii lowercase): every caller in the cone upper-cases the argument first', 'uppercase-callers'),
    ("<hickory_proto::rr::domain::name::LabelIter<'a> as core::iter::traits::iterator::Iterator>::next", 'assert:Overflow(Sub)', None): (1, 'end - 1 under start < end (Name invariant C04.W1: label_ends strictly increasing, bounded by label_data.len())', None),
    ("<hickory_proto::rr::domain::name::LabelIter<'a> as core::iter::traits::iterator::Iterator>::next", 'assert:Overflow(Add)', None): (1, 'start + 1 under start < end <= label count <= 128', None),
    ("<hickory_proto::rr::domain::name::LabelIter<'a> as core::iter::traits::iterator::Iterator>::next", 'index', 'index'): (2, 'label_ends[i] / label_data[a..b] of a Name built only through extend_name (C04.W1)', None),
    (P + 'dnssec::rdata::ds::DS::from_tokens', 'slice-op', 'str::split_at'): (1, 'split_at(2) under s.len() >= 2 && s.is_char_boundary(2)', 'ds-guard'),
    (P + 'rr::domain::name::Name::from_encoded_str', 'assert:Overflow(Mul)', None): (3, 'octal digit (to_digit(8) <= 7) times 8 / 64', 'octal-digits'),
    (P + 'rr::domain::name::Name::from_encoded_str', 'assert:Overflow(Add)', None): (2, 'sum of three octal digit terms <= 511', 'octal-digits'),
    (P + 'rr::rdata::svcb::SVCB::from_tokens', 'assert:Overflow(Sub)', None): (1, 'value.len() - 1 under value.len() >= 2', 'svcb-quote-guard'),
    (P + 'rr::rdata::svcb::SVCB::from_tokens', 'index', 'index'): (1, 'value[1..len-1] under len >= 2 and both ends being the one-byte char \'"\'', 'svcb-quote-guard'),
    (P + 'rr::rr_set::RecordSet::insert', 'panic', 'panicking::assert_failed'): (2, 'assert_eq!(record.name/type, rrset name/type): Context::insert looks the set up under RrKey(lower(record.name), record.record_type()) and creates it from a record with that key', 'rrset-key'),
    (P + 'rr::rr_set::RecordSet::insert', 'panic', 'panicking::panic'): (2, 'assert!(records.len() <= 1) for SOA/CNAME/ANAME sets: the zone parser adds to a set only through insert(), which clears the set first for these types (duplicate SOA is rejected before)', 'rrset-key'),
    (P + 'rr::rr_set::RecordSet::insert', 'index', 'index'): (1, 'records[i], i enumerated over the same vector; each iteration pushes one and swap_removes one (length unchanged)', None),
    (P + 'rr::rr_set::RecordSet::insert', 'vec-op', 'Vec::swap_remove'): (1, 'same index argument as above', None),
    (P + 'serialize::txt::parse_ttl', 'index', 'index'): (2, 'ttl_str[start..i] / [start..]: start and i are char_indices() offsets of ASCII characters (digits / unit letters)', None),
    (P + 'serialize::txt::parse_ttl', 'panic', 'panicking::panic'): (1, 'unreachable!() in the unit match: the preceding match returned Err for every other character', None),
    (Z + 'Parser::parse', 'unwrap', 'Option::expect'): (1, 'path.parent() of the file path given by the caller (configuration, not zone text)', None),
    (Z + 'Parser::parse', 'assert:Overflow(Add)', None): (1, 'stack += 1 under stack <= MAX_INCLUDE_LEVEL', 'include-depth'),
    (Z + 'Parser::parse', 'assert:Overflow(Sub)', None): (1, 'stack -= 1 once per popped lexer; stack starts at lexers.len() and grows with each push', None),
    (L + 'Lexer::escape_seq', 'assert:Overflow(Add)', None): (2, 'digits <= 9 (to_digit(10)) shifted by 16 / 8 and added', 'decimal-digits'),
    ("<hickory_proto::serialize::txt::zone_lex::CowChars<'_> as core::iter::traits::iterator::Iterator>::next", 'index', 'index'): (1, 'data[offset..]: offset is 0, a char_indices() offset added to a previous offset, or data.len()', 'cowchars-offset'),
    ("<hickory_proto::serialize::txt::zone_lex::CowChars<'_> as core::iter::traits::iterator::Iterator>::next", 'assert:Overflow(Add)', None): (1, 'offset + idx <= data.len()', 'cowchars-offset'),
}


def cha_ok(c, t):
    return bool(LOCAL_TRAITS.search(c['def'])) or 'hickory_proto::serialize::txt::' in t


def run(cx):
    prog = cx.prog
    roots = [Z + 'Parser::parse', Z + 'Parser::new', L + 'Lexer::next_token', L + 'Lexer::new', P + 'rr::record_data::RData::from_tokens',
             P + 'serialize::txt::parse_ttl', P + 'rr::domain::name::Name::parse',
             "<hickory_proto::serialize::txt::zone_lex::CowChars<'_> as core::iter::traits::iterator::Iterator>::next"]
    for r in roots:
        cx.fn('C20.Z1', r)
    cn, res = census.census(prog, roots, cha_ok=cha_ok)
    cn = {p for p in cn if '::tests::' not in p and '::test::' not in p}
    cx.floor('C20.Z1', len(cn), 200, 'functions in the zone-file cone')
    ft = [p for p in cn if p.endswith('::from_tokens')]
    cx.floor('C20.Z1', len(ft), 19, 'from_tokens parsers in the cone')
    cx.notes.append(f'zone-file cone: {len(cn)} functions, {len(ft)} from_tokens parsers; {sum(len(v) for p, v in res.items() if p in cn)} panic-capable sites')
    used = Counter()
    auto = 0
    for p, ss in sorted(res.items()):
        if p not in cn:
            continue
        f = prog.fns[p]
        ordn = Counter()
        for bb, kind, what, macro in ss:
            o = ordn[(kind, what)]
            ordn[(kind, what)] += 1
            why = census.auto_discharge(prog, f, bb, kind)
            key = (p, kind, what)
            ok = False
            if why:
                auto += 1
                ok = True
            elif key in EXEMPT and used[key] < EXEMPT[key][0]:
                used[key] += 1
                ok = True
                why = 'exempt: ' + EXEMPT[key][1]
            cx.check('C20.Z1', ok, p, f'{kind}{":" + what if what else ""}#{o}', 'panic-site-discharged',
                     'panic-capable construct reachable from zone-file text with no discharge (auto rule or reviewed exemption)',
                     f.loc(bb), sample={'fn': shorten(p + '(')[:-1], 'site': kind, 'loc': f.loc(bb), 'discharge': why})
    cx.notes.append(f'auto-discharged {auto}; exemptions used {sum(used.values())}')
    for key, (n, reason, chk) in EXEMPT.items():
        if used[key] > n:
            cx.check('C20.Z1', False, key[0], key[1], 'exemption-table-current', f'exemption expects at most {n} site(s), {used[key]} present')
    exemption_checks(cx, cn, used)
    lexer_termination(cx)
    other_loops(cx, cn)
    lexer_classes(cx)
    inheritance(cx)
    end_of_file(cx)
    tables(cx, cn)
    absolute_names(cx)
    numeric_range(cx)


# ------------------------------------------------------------------------------------------------ exemption facts

    # ---------------------------------------------------------------- N1 argument names agree with the parameters they are bound to (engine/argnames.py)
    argnames.check(cx, 'C20.N1', r'hickory_proto::serialize::txt', floor=10)
    argnames.check_fields(cx, 'C20.N1', r'hickory_proto::serialize::txt', floor=11)


def exemption_checks(cx, cn, used):
    prog = cx.prog
    # uppercase-callers: every call of DNSClass/RecordType::from_str in the cone gets an upper-cased argument
    n = 0
    for p in sorted(cn):
        f = prog.fns[p]
        sites = cx.calls(f, r'(DNSClass|RecordType) as core::str::traits::FromStr>::from_str$')
        if not sites:
            continue
        up = {s.bb for s in cx.calls(f, r'str::make_ascii_uppercase$|String::make_ascii_uppercase$')}
        for s in sites:
            n += 1
            arg = s.term[s.term.index('(') + 1:]
            ok = bool(re.match(r'(deref\()?(str|String)::to_ascii_uppercase\(', arg))
            if not ok and up:
                reach = cx.reach(f).run(edge_ok=lambda bb, t, props: bb not in up, start=0)
                ok = s.bb not in reach
            cx.check('C20.Z1', ok, p, s.key(), 'mnemonic-upper-cased-before-from_str',
                     'RecordType/DNSClass::from_str debug_assert!s that its argument has no ASCII lower-case letter; this caller passes zone text as written', s.loc)
    cx.floor('C20.Z1', n, 3, 'mnemonic from_str call sites in the cone')
    # ds-guard
    f = prog.fns.get(P + 'dnssec::rdata::ds::DS::from_tokens')
    if f:
        cx.guard('C20.Z1', cx.calls(f, r'str::split_at$'), {'len>=2': r'^le\(2,str::len\(', 'char-boundary': r'^str::is_char_boundary\(.*,2\)$'}, expect=1, fn=f)
    # svcb-quote-guard (only if the construct is still there)
    f = prog.fns.get(P + 'rr::rdata::svcb::SVCB::from_tokens')
    if f and used[(P + 'rr::rdata::svcb::SVCB::from_tokens', 'index', 'index')]:
        idx = [s for s in cx.calls(f, r'Index<I>>::index$|Index::index$|IndexMut') if re.search(r'var\(\w+\)', s.term)]
        cx.guard('C20.Z1', idx, {'len>=2': r'^(le\(2,str::len\(var\(\w+\)\)\)|lt\(1,str::len\(var\(\w+\)\)\))$'}, expect=1, fn=f)
    # octal / decimal digits
    f = prog.fns.get(P + 'rr::domain::name::Name::from_encoded_str')
    if f:
        es = cx.assigns(f, r'^ParseState::Escape[23]\(', place=None)
        bad = [s for s in es if not re.search(r'methods::to_digit\(.*,8\)', s.term)]
        cx.check('C20.Z1', len(es) >= 2 and not bad, f.path, 'stores', 'escape-digits-are-octal-digits', '; '.join(s.term[:80] for s in bad) or str(len(es)))
    f = prog.fns.get(L + 'Lexer::escape_seq')
    if f:
        # every digit of a \\DDD escape is read with radix 10 (in escape_seq's closures, or in those of a helper it was split into)
        td = [s for g in [f] + cx.closures_of(f) for s in cx.calls(g, r'to_digit$')]
        bad = [s for s in td if not re.search(r'methods::to_digit\(.*,10\)$', s.term)]
        cx.check('C20.Z1', len(td) >= 1 and not bad, f.path, 'closures', 'escape-digits-are-decimal-digits', f'{len(td)} to_digit calls; ' + '; '.join(s.term[:60] for s in bad))
    # include-depth
    f = prog.fns.get(Z + 'Parser::parse')
    if f:
        push = [s for s in cx.calls(f, r'Vec<T, A>::push$|Vec::push$') if s.term.startswith('Vec::push(arg1.lexers,')]
        cx.guard('C20.L1', push, {'include-depth-bounded': r'^le\(phi\(Vec::len\(arg1\.lexers\)\|.*\),const:zone::MAX_INCLUDE_LEVEL\)$'}, expect=1, fn=f)
    # rrset-key
    f = prog.fns.get(Z + 'Context::insert')
    if f:
        ins = cx.calls(f, r'RecordSet::insert$')
        KEY = r'BTreeMap::entry\(arg1\.records,RrKey::new\(LowerName::new\(var\(\w+\)\.name\),Record::record_type\(var\(\w+\)\)\)\)'
        for s in ins:
            cx.check('C20.Z1', bool(re.match(r'^RecordSet::insert\(OccupiedEntry::get_mut\(' + KEY + r'@Occupied\.0\),var\(\w+\),0\)$', s.term)), f.path, s.key(),
                     'rrset-looked-up-under-the-record-own-key', s.term[:200], s.loc)
        cx.check('C20.Z1', len(ins) == 1, f.path, 'calls', 'single-rrset-insert', str(len(ins)))
        adders = [s for s in cx.calls(f, r'RecordSet::(add_rdata|new_record|add_rrsig|insert_rrsig)$')]
        cx.check('C20.Z1', not adders, f.path, 'calls', 'rrset-grown-only-through-insert', '; '.join(s.label for s in adders))
    # cowchars-offset: written only by CowChars::next and the constructor
    ws = writers(prog, r'zone_lex::CowChars$', r'offset$')
    bad = [w for w in ws if not re.search(r'zone_lex::(Lexer::new|CowChars.*::next)$', w[0].path)]
    cx.check('C20.Z1', len(ws) >= 2 and not bad, 'CowChars.offset', 'writers', 'offset-written-only-by-next-and-new', '; '.join(shorten(w[0].path + '(')[:-1] for w in bad) or str(len(ws)))


# ------------------------------------------------------------------------------------------------ lexer termination
def lexer_model(cx):
    prog = cx.prog
    f = cx.fn('C20.L1', L + 'Lexer::next_token')
    if not f:
        return None
    heads = [bi for bi, c, t in prog.calls_of(f) if shorten(f.term_call(t, 0)) == PEEK]
    cx.check('C20.L1', len(heads) == 1, f.path, 'loop', 'single-look-ahead-per-iteration', str(len(heads)))
    if len(heads) != 1:
        return None
    consume = set()
    for bi, c, t in prog.calls_of(f):
        tt = shorten(f.term_call(t, 0))
        if re.search(r'^(<Peekable<I> as Iterator>|Peekable|Iterator)::next\(arg1\.txt\)$|^Lexer::escape_seq\(arg1\)$', tt):
            consume.add(bi)
    cx.floor('C20.L1', len(consume), 12, 'consuming calls in the lexer')
    return f, heads[0], consume



def lexer_termination(cx):
    m = lexer_model(cx)
    if not m:
        return
    f, head, consume = m
    # a consuming call is progress only when a character is known to be there on the way to it
    real = set()
    for b in consume:
        pp = [shorten(p) for p in (core.path_props(f, b) or [])]
        if f'ok({PEEK})' in pp:
            real.add(b)
    its, n, inner = sm.iterations(cx, f, head, real, None)
    cx.check('C20.L1', not inner, f.path, 'loop', 'no-inner-cycle-without-consumption', f'{len(inner)} inner cycles')
    stores = defaultdict(list)
    for s in cx.assigns(f, r'.*', place=r'^\(?\*?arg1\)?\.state$|state$'):
        stores[s.bb].append((s.si, s.term))

    def states_of(term):
        if term.startswith('phi('):
            return [x for t in core.split_args(term[4:-1].replace('|', ',')) for x in states_of(t)]
        mm = re.match(r'^State::(\w+)(?:\((true|false)\))?', term)
        if not mm:
            return [('?', None)]
        return [(mm.group(1), None if mm.group(2) is None else mm.group(2) == 'true')]
    edges = []
    for it in its:
        frm, flag = None, None
        cons = []
        for p in it['props']:
            mm = re.fullmatch(r'is\(arg1\.state,(\w+)\)', p)
            if mm:
                frm = mm.group(1)
            mm = re.fullmatch(r'(!?)arg1\.state@\w+\.is_list', p)
            if mm:
                flag = mm.group(1) == ''
            cons += sm.atoms_of(p, PEEK)
        last = None
        for b in it['blocks']:
            if b in stores:
                last = sorted(stores[b])[-1][1]
        if frm is None:
            cx.check('C20.L1', False, f.path, 'iteration', 'iteration-dispatches-on-the-scanner-state', 'a consumption-free path does not pass the match on self.state')
            continue
        if last is None:
            cx.check('C20.L1', False, f.path, f'state:{frm}', 'no-consumption-free-iteration-that-keeps-the-state',
                     f'in state {frm} an iteration can return to the loop head without consuming input or changing state (endless loop)')
            continue
        for to in states_of(last):
            edges.append(((frm, flag), to, cons))
    cx.floor('C20.L1', len(edges), 15, 'consumption-free lexer transitions')

    def match(a, b):
        return a[0] == b[0] and (a[1] is None or b[1] is None or a[1] == b[1])
    cycles = []

    def dfs(path, cons):
        lastto = path[-1][1]
        for e in edges:
            if not match(lastto, e[0]):
                continue
            c2 = cons + e[2]
            if not sm.consistent(c2):
                continue
            if match(e[1], path[0][0]) or any(match(e[1], x[0]) for x in path[1:]) or match(e[1], e[0]):
                cycles.append([x[0][0] for x in path] + [e[0][0], e[1][0]])
                continue
            if len(path) < 16:
                dfs(path + [e], c2)
    for e in edges:
        if not sm.consistent(e[2]):
            continue
        if match(e[1], e[0]):
            cycles.append([e[0][0], e[1][0]])
            continue
        dfs([e], list(e[2]))
    cx.check('C20.L1', not cycles, f.path, 'state-graph', 'no-feasible-consumption-free-cycle',
             '; '.join('->'.join(c) for c in cycles[:4]) or f'{len(edges)} consumption-free transitions over {len(its)} iteration paths ({n} explored), acyclic for a fixed look-ahead',
             sample={'fn': 'Lexer::next_token', 'transitions': sorted({f"{a[0]}->{b[0]}" for a, b, c in edges}), 'holds': not cycles})
    # no fixed step budget that turns long input into a panic (the budget is not needed: see above)
    cx.notes.append('lexer transitions without consumption: ' + ', '.join(sorted({f"{a[0]}->{b[0]}" for a, b, c in edges})))


def other_loops(cx, cn):
    prog = cx.prog
    nl = 0
    for p in sorted(cn):
        f = prog.fns[p]
        if p == L + 'Lexer::next_token' or not loops.has_loops(f):
            continue
        nl += 1
        pb = {bi for bi, c, t in prog.calls_of(f) if any(PROGRESS.search(x) for x in f.callee_names(c))}
        bad = loops.cycles_without(cx, f, pb)
        cx.check('C20.L1', not bad, p, 'loops', 'every-cycle-advances-an-iterator-or-the-lexer',
                 'blocks on a progress-free cycle at lines ' + ','.join(str(f.span(b)[0]) for b in sorted(bad)[:8]), f'{f.file}:{f.line}',
                 sample={'fn': shorten(p + '(')[:-1], 'progress_blocks': len(pb), 'holds': not bad})
        for bi, c, t in prog.calls_of(f):
            tt = shorten(f.term_call(t, 0))
            if re.search(r'iter::(repeat|repeat_with|from_fn|successors)\(|Iterator::cycle\(', tt):
                cx.check('C20.L1', False, p, 'iter', 'no-infinite-iterator-source', tt[:120], f.loc(bi))
    cx.floor('C20.L1', nl, 8, 'loops in the zone-file cone besides the lexer')


# ------------------------------------------------------------------------------------------------ lexer delimiter classes
def lexer_classes(cx):
    m = lexer_model(cx)
    if not m:
        return
    f = m[0]
    E = re.escape(CH)
    push = cx.calls(f, r'Lexer::push_to_str$')
    item = [s for s in push if cx.has_guard(s, r'^is\(arg1\.state,CharData\)$')]
    cx.guard('C20.G1', item, {'not-white-space': rf'^!(\w+::)*is_whitespace\({E}\)$', "not-';'": rf'^(!eq\(59,{E}\)|!in\({E},[\d|]*\b59\b[\d|]*\))$',
                              "not-')'": rf'^(!eq\(41,{E}\)|!in\({E},[\d|]*\b41\b[\d|]*\))$', 'not-control': rf'^!(\w+::)*is_control\({E}\)$'}, expect=1, fn=f)
    quoted = [s for s in push if cx.has_guard(s, r'^is\(arg1\.state,Quote\)$')]
    plain = [s for s in quoted if 'escape_seq' not in s.term]
    esc = [s for s in quoted if 'escape_seq' in s.term]
    cx.guard('C20.G1', plain, {'not-quote-not-backslash': rf'^!in\({E},(34\|92|92\|34)\)$'}, expect=1, fn=f)
    cx.guard('C20.G1', esc, {'backslash': rf'^eq\(92,{E}\)$'}, expect=1, fn=f)
    starts = cx.assigns(f, r'^State::CharData\(', place=r'state$')
    cx.check('C20.G1', len(starts) == 2, f.path, 'stores', 'item-starts(plain,list)', str(len(starts)))
    for s in starts:
        ctxname = 'list' if 'true' in s.term else 'line'
        for name, code in (('quote', 34), ('semicolon', 59), ('close-paren', 41)):
            ok = cx.has_guard(s, rf'^(!eq\({code},{E}\)|!in\({E},[\d|]*\b{code}\b[\d|]*\))$')
            cx.check('C20.G1', ok, f.path, f'item-start:{ctxname}', f'unquoted-item-never-starts-with-{name}',
                     f'in the {ctxname} context a {name} character starts an unquoted item instead of its own token class', s.loc)
        cx.guard('C20.G1', [s], {'not-white-space': rf'^!(\w+::)*is_whitespace\({E}\)$', 'not-control': rf'^!(\w+::)*is_control\({E}\)$'}, fn=f)
    com = cx.assigns(f, r'^State::Comment\(', place=r'state$')
    cx.guard('C20.G1', com, {"on-';'": rf'^eq\(59,{E}\)$'}, expect=2, fn=f)
    for s in com:
        want = 'List' if 'true' in s.term else 'RestOfLine'
        cx.check('C20.G1', cx.has_guard(s, rf'^is\(arg1\.state,{want}\)$'), f.path, s.key(), 'comment-context-remembered', s.term, s.loc)
    q = cx.assigns(f, r'^State::Quote', place=r'state$')
    cx.guard('C20.G1', q, {'on-quote': rf'^eq\(34,{E}\)$'}, fn=f)
    cx.check('C20.G1', len(q) >= 1, f.path, 'stores', 'quote-state-entered', str(len(q)))
    lst = cx.assigns(f, r'^State::List$', place=r'state$')
    opened = [s for s in lst if cx.has_guard(s, rf'^eq\(40,{E}\)$')]
    cx.check('C20.G1', len(opened) == 1, f.path, 'stores', "list-opened-on-'('", str(len(opened)))


# ------------------------------------------------------------------------------------------------ inheritance
def end_of_file(cx):
    """S3: a file ($INCLUDEd or top level) that ends without a final newline still denotes its last record, and nothing of its line
    state reaches the including file: when a lexer is exhausted and before it is popped, the line state is taken and reset to
    StartLine (mem::replace) and a pending Record is inserted.  A flush moved behind the lexer loop loses / mangles the last record
    of an included file and lets its half-parsed line swallow the parent's next line."""
    f = cx.fn('C20.S3', Z + 'Parser::parse')
    if not f:
        return
    pops = [s_ for s_ in cx.calls(f, r'Vec<T, A>::pop$|Vec::pop$') if re.fullmatch(r'Vec::pop\(arg1\.lexers\)', s_.term)]
    rst = [s_ for s_ in cx.calls(f, r'mem::replace$') if re.search(r'^mem::replace\(.*,State::StartLine\)$', s_.term)]
    cx.check('C20.S3', len(pops) == 1 and len(rst) >= 1, f.path, 'calls', 'lexer-pop-and-line-state-reset-present', f'pop={len(pops)} reset={len(rst)}')
    if pops and rst:
        cx.must_pass('C20.S3', f, pops, via_blocks={x.bb for x in rst}, what='line-state-reset-before-the-lexer-is-popped')
        flush = [s_ for s_ in cx.calls(f, r'Context::insert$') if re.search(r'^Context::insert\(var\(\w+\),mem::replace\(.*,State::StartLine\)@Record\.0\)$', s_.term)]
        cx.check('C20.S3', len(flush) == 1, f.path, 'calls', 'pending-record-of-the-ended-file-is-inserted', str(len(flush)))
        for x in flush:
            cx.check('C20.S3', cx.has_guard(x, r'^is\(mem::replace\(.*,State::StartLine\),Record\)$'), f.path, x.key(), 'flush-under-State::Record', x.term[:120], x.loc)
            cx.check('C20.S3', pops[0].bb in cx.reachable_from(f, [x.bb]), f.path, x.key(), 'flush-precedes-the-pop', '', x.loc)


def inheritance(cx):
    prog = cx.prog
    f = cx.fn('C20.S1', Z + 'Parser::parse')
    ins = cx.fn('C20.S1', Z + 'Context::insert')
    take = cx.fn('C20.S1', Z + 'Ttl::take')
    if not (f and ins and take):
        return
    ws = writers(prog, r'zone::Context$|zone::Ttl$', r'.*')
    by = defaultdict(list)
    for w in ws:
        by[w[3].split('::')[-1]].append((shorten(w[0].path + '(')[:-1], w[4]))
    allowed = {
        'Context.current_name': {('Parser::parse', 'store'): 2, ('Parser::parse', 'mutref'): 1},
        'Context.origin': {('Parser::parse', 'store'): 2},
        'Context.class': {('Parser::parse', 'store'): 1},
        'Context.rtype': {('Parser::parse', 'store'): 2},
        'Ttl.default': {('Parser::parse', 'store'): 1},
        'Ttl.this': {('Parser::parse', 'store'): 1, ('Ttl::take', 'mutref'): 1},
        'Ttl.last': {('Ttl::take', 'mutref'): 1},
        'Context.ttl': {('Context::insert', 'mutref'): 1},
        'Context.records': {('Context::insert', 'mutref'): 1},
    }
    for field, al in allowed.items():
        got = Counter(by.get(field, []))
        extra = {k: v for k, v in got.items() if v > al.get(k, 0)}
        cx.check('C20.S1', not extra and bool(got), field, 'writers', 'field-written-only-at-the-reviewed-sites', f'unexpected writers {extra}' if extra else str(dict(got)))
    unk = [k for k in by if k not in allowed and k not in ('Context', 'Ttl')]
    cx.check('C20.S1', not unk, 'zone::Context', 'writers', 'no-unreviewed-field', ', '.join(unk))
    T = TOK
    own = cx.assigns(f, r'^Option::Some\(try\(Name::parse\(', place=r'current_name$')
    for s in own:
        cx.check('C20.S1', bool(re.match(rf'^Option::Some\(try\(Name::parse\({T}@CharData\.0,var\(\w+\)\.origin\)\)@Continue\.0\)$', s.term)), f.path, s.key(),
                 'owner=leading-name-resolved-against-current-origin', s.term[:200], s.loc)
    cx.check('C20.S1', len(own) >= 1, f.path, 'stores', 'owner-store-present', str(len(own)))
    at = cx.calls(f, r'Clone>::clone_from$')
    cx.guard('C20.S1', [s for s in at if re.search(r'clone_from\((var\(\w+\))\.current_name,\1\.origin\)$', s.term)], {'on-@': rf'^is\({T},At\)$'}, expect=1, fn=f)
    org = cx.assigns(f, r'^Option::Some\(try\(Name::parse\(', place=r'\.origin$')
    cx.guard('C20.S1', org, {'after-$ORIGIN': rf'^is\({T},Origin\)$', 'name-token': rf'^is\({T},CharData\)$'}, fn=f)
    cx.check('C20.S1', len(org) >= 1, f.path, 'stores', 'origin-store-present', str(len(org)))
    dft = cx.assigns(f, r'^Option::Some\(try\(txt::parse_ttl\(', place=r'default$')
    cx.guard('C20.S1', dft, {'after-$TTL': rf'^is\({T},Ttl\)$'}, expect=1, fn=f)
    this = cx.assigns(f, r'^Option::Some\(txt::parse_ttl\(' + T + r'@CharData\.0\)@Ok\.0\)$|^Option::Some\(', place=r'this$')
    cx.check('C20.S1', len(this) == 1 and 'txt::parse_ttl(' in this[0].term, f.path, 'stores', 'line-ttl-from-parse_ttl', '; '.join(s.term[:100] for s in this))
    cls = cx.assigns(f, r'.*', place=r'\.class$')
    cx.check('C20.S1', len(cls) == 1 and bool(re.match(rf'^<DNSClass as FromStr>::from_str\({T}@CharData\.0\)@Ok\.0$', cls[0].term)), f.path, 'stores', 'class-from-the-stated-mnemonic', '; '.join(s.term[:120] for s in cls))
    rt = cx.assigns(f, r'.*', place=r'rtype$')
    some = [s for s in rt if s.term.startswith('Option::Some(try(<RecordType as FromStr>::from_str(')]
    none = [s for s in rt if s.term == 'Option::None']
    cx.check('C20.S1', len(some) == 1 and len(none) == 1, f.path, 'stores', 'type-reset-per-line-and-set-from-mnemonic', '; '.join(s.term[:60] for s in rt))
    # Context::insert builds the record from exactly these
    rec = cx.calls(ins, r'Record<R>::from_rdata$|Record::from_rdata$')
    NAME = r'try\(Option::ok_or_else\(arg1\.current_name,closure:Context::insert::\{closure[^}]*\}\)\)@Continue\.0'
    TTLT = r'try\(Option::ok_or_else\(Ttl::take\(arg1\.ttl\),closure:Context::insert::\{closure[^}]*\}\)\)@Continue\.0'
    RD = r'try\(RData::from_tokens\(try\(Option::ok_or_else\(arg1\.rtype,closure:Context::insert::\{closure[^}]*\}\)\)@Continue\.0,Iterator::map\(slice::iter\(arg2\),fn:<String as AsRef<str>>::as_ref\),arg1\.origin\)\)@Continue\.0'
    for s in rec:
        cx.check('C20.S1', bool(re.match(rf'^Record::from_rdata\({NAME},{TTLT},{RD}\)$', s.term)), ins.path, s.key(), 'record=(current_name,ttl.take(),from_tokens(rtype,parts,origin))', s.term[:300], s.loc)
    cx.check('C20.S1', len(rec) == 1, ins.path, 'calls', 'single-record-construction', str(len(rec)))
    dc = cx.assigns(ins, r'^arg1\.class$', place=r'dns_class$')
    cx.check('C20.S1', len(dc) == 1, ins.path, 'stores', 'record-class=context-class', str(len(dc)))
    fq = cx.calls(ins, r'Name::set_fqdn$')
    cx.check('C20.S1', len(fq) == 1 and fq[0].term.endswith(',true)'), ins.path, 'calls', 'owner-made-absolute', str(len(fq)))
    # Ttl::take order: this line, $TTL, last explicit
    rets = cx.returns(take, r'.*')
    rows = [('this', r'^Option::Some\(arg1\.this@Some\.0\)$', [r'^ok\(arg1\.this\)$']),
            ('default', r'^Option::Some\(arg1\.default@Some\.0\)$', [r'^!ok\(arg1\.this\)$', r'^ok\(arg1\.default\)$']),
            ('last', r'^Option::Some\(arg1\.last@Some\.0\)$', [r'^!ok\(arg1\.this\)$', r'^!ok\(arg1\.default\)$', r'^ok\(arg1\.last\)$']),
            ('none', r'^Option::None$', [r'^!ok\(arg1\.this\)$', r'^!ok\(arg1\.default\)$', r'^!ok\(arg1\.last\)$'])]
    for name, rx, gs in rows:
        c = [s for s in rets if re.match(rx, s.term) and all(cx.has_guard(s, g) for g in gs)]
        cx.check('C20.S1', len(c) == 1, take.path, 'row:' + name, 'ttl-precedence(this,$TTL,last)', '; '.join(s.term for s in rets))
    cx.check('C20.S1', len(rets) == 4, take.path, 'returns', 'ttl-precedence-has-four-rows', str(len(rets)))
    lastw = cx.calls(take, r'Option<T>::replace$|Option::replace$')
    cx.guard('C20.S1', [s for s in lastw if s.term.startswith('Option::replace(arg1.last,')], {'explicit-ttl-on-this-line': r'^ok\(arg1\.this\)$'}, expect=1, fn=take)
    # T1: every item reaches the rdata parser; flush at EOL and at end of input
    pu = [s for s in cx.calls(f, r'Vec<T, A>::push$|Vec::push$') if re.search(rf'@Record\.0,{T}@CharData\.0\)$', s.term)]
    cx.guard('C20.T1', pu, {'plain-item': rf'^is\({T},CharData\)$'}, expect=1, fn=f)
    ex = [s for s in cx.calls(f, r'Extend<T>>::extend$') if re.search(rf'@Record\.0,{T}@List\.0\)$', s.term)]
    cx.guard('C20.T1', ex, {'parenthesised-items': rf'^is\({T},List\)$'}, expect=1, fn=f)
    fl = cx.calls(f, r'Context::insert$')
    eol = [s for s in fl if cx.has_guard(s, rf'^is\({T},EOL\)$')]
    cx.check('C20.T1', len(fl) == 2 and len(eol) == 1, f.path, 'calls', 'record-flushed-at-EOL-and-at-end-of-input', f'{len(fl)} flushes, {len(eol)} at EOL')


# ------------------------------------------------------------------------------------------------ tables
WRAP = {'ANAME': 'ANAME', 'CNAME': 'CNAME', 'NS': 'NS', 'PTR': 'PTR'}


def tables(cx, cn):
    prog = cx.prog
    f = cx.fn('C20.T2', P + 'rr::record_data::RData::from_tokens')
    if not f:
        return
    seen = set()
    n = 0
    for s in cx.assigns(f, r'^RData::\w+\(', place=None):
        if (s.bb, s.si) in seen:
            continue
        seen.add((s.bb, s.si))
        m = re.match(r'^RData::(\w+)\((.*)\)$', s.term)
        v, inner = m.group(1), m.group(2)
        if v == 'DNSSEC':
            m2 = re.match(r'^DNSSECRData::(\w+)\((.*)\)$', inner)
            v, inner = m2.group(1), m2.group(2)
        n += 1
        if v in WRAP:
            okc = inner == f'{v}(try(Name::from_tokens(arg2,arg3))@Continue.0)'
        elif v == 'HTTPS':
            okc = bool(re.match(r'^HTTPS\(try\(SVCB::from_tokens\(arg2(,arg3)?\)\)@Continue\.0\)$', inner))
        else:
            okc = bool(re.match(rf'^try\({v}::from_tokens\(arg2(,arg3)?\)\)@Continue\.0$', inner))
        cx.check('C20.T2', okc, f.path, 'variant:' + v, 'variant-built-by-its-own-parser', inner[:120], s.loc)
        cx.check('C20.T2', cx.has_guard(s, rf'^is\(arg1,{v}\)$'), f.path, 'variant:' + v, 'variant-selected-by-its-record-type', s.term[:80], s.loc)
    cx.floor('C20.T2', n, 22, 'RData variants parsed from text')
    # every domain name embedded in RDATA is resolved against the origin
    nn = 0
    for p in sorted(cn):
        if not re.search(r'::from_tokens(::\{closure[^}]*\})*$', p):
            continue
        g = prog.fns[p]
        for s in cx.calls(g, r'Name::(parse|from_str|from_ascii|from_utf8|from_str_relaxed|from_tokens)$|Name as core::str::traits::FromStr>::from_str$'):
            nn += 1
            ok = bool(re.match(r'^Name::parse\(.*,\^+arg\d+\)$', s.term)) or s.term in ('Name::from_tokens(arg2,arg3)',) or bool(re.match(r'^Name::parse\([^,]*,arg[23]\)$', s.term))
            cx.check('C20.T2', ok, p, s.key(), 'embedded-name-resolved-against-origin',
                     'a domain name inside RDATA is parsed without the zone origin: a relative name stays relative instead of being completed with $ORIGIN (RFC 1035 5.1)', s.loc)
    cx.floor('C20.T2', nn, 10, 'domain names parsed inside from_tokens parsers')


def numeric_range(cx):
    """S4: parse_ttl is the number reader of the zone-file parser - $TTL, record TTLs and every numeric SOA field including the
    SERIAL go through it.  A valid file may state any value a u32 holds (a serial in the upper half of the number space, RFC 1982):
    the only failures of parse_ttl are syntax (empty, a character that is neither digit nor unit) and u32 overflow of the
    arithmetic; no comparison of the accumulated value with a limit decides an error."""
    f = cx.fn('C20.S4', P + 'serialize::txt::parse_ttl')
    if not f:
        return
    allp = sorted({shorten(p_) for bb in range(len(f.blocks)) for ps in f.edge_props(bb).values() for p_ in ps})
    lim = [p_ for p_ in allp if re.match(r'^!?(lt|le)\(', p_) and re.search(r'checked_add|checked_mul|num::from_str', p_)]
    cx.check('C20.S4', not lim, f.path, 'guards', 'no-range-limit-on-the-parsed-value(every u32 is accepted)', '; '.join(x[:120] for x in lim))
    cx.floor('C20.S4', sum(1 for p_ in allp if 'checked_add' in p_ or 'checked_mul' in p_), 2, 'overflow-checked arithmetic guards in parse_ttl')
    soa = cx.fn('C20.S4', P + 'rr::rdata::soa::SOA::from_tokens')
    if soa:
        n_ = sum(1 for bi_, c_, t_ in cx.prog.calls_of(soa) if 'parse_ttl' in shorten(soa.term_call(t_, 0)).split('(', 1)[1][:400] and 'and_then' in shorten(soa.term_call(t_, 0)).split('(', 1)[0])
        cx.check('C20.S4', n_ >= 1, soa.path, 'calls', 'soa-numeric-fields-read-by-parse_ttl', str(n_))


def absolute_names(cx):
    """RFC 1035 5.1: "Domain names that end in a dot are called absolute ... names which do not end in a dot are called relative;
    the actual domain name is the concatenation of the relative part with an origin".  In Name::from_encoded_str (behind Name::parse,
    i.e. every owner, $ORIGIN and RDATA name of a zone file) the name is made absolute exactly when the text ended with an UNESCAPED
    dot - which is when the label being collected is empty at the end of input - and the origin is appended exactly otherwise."""
    f = cx.fn('C20.S2', P + 'rr::domain::name::Name::from_encoded_str')
    if not f:
        return
    fq = [s_ for s_ in cx.calls(f, r'Name::set_fqdn$') if s_.term.endswith(',true)')]
    final = [s_ for s_ in fq if not cx.has_guard(s_, r'^eq:str\(arg1,lit:"\."\)$|^eq\(arg1,lit:"\."\)$|^eq:.*lit:"\."')]
    cx.check('C20.S2', len(final) == 1, f.path, 'calls', 'one-absolute-decision-besides-the-root-shortcut', f'{len(fq)} set_fqdn(true) calls, {len(final)} besides the root shortcut')
    app = cx.calls(f, r'Name::append_domain$')
    cx.check('C20.S2', len(app) == 1, f.path, 'calls', 'origin-appended-at-one-site', str(len(app)))
    EMPTY = r'String::is_empty\(String::new\(\)\)'
    for s_ in final[:1]:
        if cx.has_guard(s_, '^' + EMPTY + '$'):
            cx.oblige('C20.S2', True, sample={'fn': 'Name::from_encoded_str', 'site': s_.key(), 'guard': 'pending-label-empty', 'holds': True})
            for a_ in app:
                cx.guard('C20.S2', [a_], {'pending-label-not-empty-or-empty-input': '^!' + EMPTY + r'$|^str::is_empty\(arg1\)$', 'origin-given': r'^ok\(arg2\)$'}, fn=f)
        else:
            # a flag instead of the label test: then EVERY character pushed onto the label must reset it before the decision
            flags = [x for x in (core.path_props(f, s_.bb) or []) if re.fullmatch(r'var\(\w+\)', shorten(x))]
            pushes = cx.calls(f, r'String::push$')
            ok = bool(flags)
            if ok:
                stores = {a_.bb for a_ in cx.assigns(f, r'^(true|false)$', place=None) if f.varname.get(f.blocks[a_.bb]['s'][a_.si][1]) == shorten(flags[0])[4:-1]} if hasattr(f, 'varname') else set()
                ok = bool(stores)
                for p_ in pushes:
                    seen = cx.reach(f).run(edge_ok=lambda bb, t, ps: bb not in stores, start=f.succs(p_.bb)[0])
                    if s_.bb in seen:
                        ok = False
            cx.check('C20.S2', ok, f.path, s_.key(), 'absolute-iff-the-text-ends-with-an-unescaped-dot',
                     'the absolute/relative decision does not rest on the pending label being empty, and not every character pushed onto the label resets the flag it rests on instead', s_.loc)

"""C16 — only the queried server's matching reply completes a query: accept-path guard set of the UDP
receive loop (literal bound 3), fresh-id guard, routing key provenance, vacant => no send, close => fail-all."""
import re
import argnames
from api import shorten, writers

EXPLANATION = (
    "GUARD/SLICE/PATH/WRITE rules over hickory-net: (G1) both Ok returns of UdpRequest::send are cut off from the entry by "
    "canonical source IP equality, source port equality, message id equality, 'every response question is one of the request's "
    "questions' (closure returns slice::contains over the request's queries with full Query equality) and, under case "
    "randomisation, the 0x20 closure (Query equality and eq_case); a case mismatch returns QueryCaseMismatch; recv_from sits in a "
    "loop over the literal range 0..3 and the only ways back to it are the three skip edges; after the loop the function returns "
    "Err; (G2) the multiplexer inserts into active_requests only a key equal to the id produced by next_random_query_id (Ok only "
    "under !contains_key), after the id was stored in the request and the bytes were accepted by the stream, and only below "
    "max_active_requests; (S1) poll_next completes only the entry obtained for the decoded response's id; the Vacant and decode-"
    "error arms contain no send; (P1) stream end or error calls stream_closed_close_all (drains all entries, completes each) before "
    "returning; drop_cancelled completes exactly the entries it removes; active_requests is touched by these functions only.")
NOT_DECIDED = "Arrival schedules and interleavings as such; randomness quality of ports and ids; UDP socket port selection."
ASSUMPTIONS = ["FULL feature configuration (TSIG verifier path present)", "HashMap/Entry API semantics"]

U = r'<hickory_net::udp::udp_client_stream::UdpRequest<P> as hickory_net::udp::udp_client_stream::Request>::send::{closure#0}'
M = 'hickory_net::xfer::dns_multiplexer::'
REQ_BYTES = r'SerialMessage::new\(Message::to_vec\(.*?\)@Ok\.0,\^arg1\.name_server\)'


def run(cx):
    f = cx.fn('C16.G1', U)
    if f:
        oks = cx.returns(f, r'^Result::Ok\(')
        # "at most three datagrams": `for _ in 0..3`, or a counter that starts at 0, is only ever incremented by one, is tested `< 3`
        # at the loop head and is incremented on every path from that test to the receive
        CNT = r'phi\(0\|addwithoverflow\(rec\(_\d+\),1\)\.0\)'
        W3 = rf'^ok\(range::next\(Range\(0,3\)\)\)$|^lt\({CNT},3\)$'
        X3 = rf'^!ok\(range::next\(Range\(0,3\)\)\)$|^le\(3,{CNT}\)$|^!lt\({CNT},3\)$'
        RECV = r'try\(await\(DnsUdpSocket::recv_from\(.*?\)\)@Ready\.0\)@Continue\.0'
        req = {
            'source-ip-canonical-equal': rf'^eq:IpAddr\(IpAddr::to_canonical\(SocketAddr::ip\(SerialMessage::addr\({REQ_BYTES}\)\)\),IpAddr::to_canonical\(SocketAddr::ip\({RECV}\.1\)\)\)$',
            'source-port-equal': rf'^eq\(SocketAddr::port\(SerialMessage::addr\({REQ_BYTES}\)\),SocketAddr::port\({RECV}\.1\)\)$',
            'id-equal': r'^eq\(\^arg1\.request(\.metadata)?\.id,try\(DnsResponse::from_buffer\(.*\)\)@Continue\.0(\.\w+)*\.id\)$',
            'questions-subset-of-request': r"^<Iter<'a;T> as Iterator>::all\(slice::iter\(try\(DnsResponse::from_buffer\(.*\)\)@Continue\.0(\.\w+)*\.queries\),closure:<UdpRequest<P> as Request>::send::\{closure#0\}::\{closure@all#0\}\)$",
            # ... all(|e| any(|q| q == e && same case)), or its De Morgan dual !any(|e| !any(..))
            'case-matches-when-randomised': r"^!\^arg1\.case_randomization$|^<Iter<'a;T> as Iterator>::all\(slice::iter\(.*\.queries\),closure:<UdpRequest<P> as Request>::send::\{closure#0\}::\{closure@all#1\}\)$"
                                            r"|^!<Iter<'a;T> as Iterator>::any\(slice::iter\(.*\.queries\),closure:<UdpRequest<P> as Request>::send::\{closure#0\}::\{closure@any#0\}\)$",
            'within-3-datagrams': W3,
            'datagram-decoded': r'^ok\(DnsResponse::from_buffer\(',
        }
        cx.guard('C16.G1', oks, req, expect=2, fn=f)
        # the response handed out is the decoded datagram (or its TSIG-verified form)
        for s in oks:
            ok = bool(re.search(r'^Result::Ok\(try\(DnsResponse::from_buffer\(|^Result::Ok\(try\(TSigVerifier::verify\(', s.term))
            cx.check('C16.G1', ok, f.path, s.key(), 'returns-the-received-datagram', s.term[:120], s.loc)
        # loop: literal bound, recv inside, error after
        rc = cx.calls(f, r'DnsUdpSocket::recv_from$')
        cx.guard('C16.G1', rc, {'within-3-datagrams': W3}, expect=1, fn=f)
        heads = [s_ for bb in range(len(f.blocks)) for s_, ps in f.edge_props(bb).items() if any(re.search(rf'^lt\({CNT},3\)$', shorten(p_)) for p_ in ps)]
        if heads and not cx.calls(f, r'range::next$|Range<\w+> as Iterator>::next$'):
            incs = [bi for bi, b in enumerate(f.blocks) for st in b['s']
                    if st[0] == '=' and st[2][0] == 'bin' and st[2][1] == 'AddWithOverflow' and st[2][3][0] == 'k' and st[2][3][1].get('int') == 1]
            cx.must_pass('C16.G1', f, rc, via_blocks=set(incs), start_blocks=heads, what='counter-incremented-before-each-receive')
        exh = [s for s in cx.returns(f, r'^Result::Err\(') if cx.has_guard(s, X3)]
        cx.check('C16.G1', len(exh) == 1, f.path, 'ret', 'error-after-3-datagrams', f'{len(exh)} Err returns on loop exhaustion')
        okex = [s for s in oks if cx.has_guard(s, X3)]
        cx.check('C16.G1', not okex, f.path, 'ret', 'no-accept-after-loop', str(okex))
        # case mismatch is an error, never Ok
        cm = cx.returns(f, r'NetError::QueryCaseMismatch')
        cx.guard('C16.G1', cm, {'randomised': r'^\^arg1\.case_randomization$', 'questions-matched': req['questions-subset-of-request']}, expect=1, fn=f)
        # request id on the wire is the id compared
        tv = cx.calls(f, r'Message::to_vec$')
        cx.check('C16.G1', len(tv) >= 1, f.path, 'calls', 'request-serialised', str(len(tv)))
    c0 = cx.fn('C16.G1', U + '::{closure@all#0}')
    if c0:
        t = cx.true_returns(c0)
        ok = len(t) == 1 and bool(re.search(r'^slice::contains\(try\(Message::from_vec\(SerialMessage::bytes\(.*\^\^arg1\.request.*\)\)\)@Continue\.0(\.\w+)*\.queries,arg2\)$', t[0].term))
        cx.check('C16.G1', ok, c0.path, 'ret', 'question-membership-is-full-Query-equality', '; '.join(s.term[:200] for s in t), t[0].loc if t else '')
    dual = cx.prog.fn(U + '::{closure@any#0}') if not cx.prog.fn(U + '::{closure@all#1}') else None
    if dual is not None:
        # dual form: the outer closure is |e| !request.any(|q| ..): its value is the negation of the inner any
        r_ = cx.returns(dual, r'.')
        cx.check('C16.G1', len(r_) == 1 and bool(re.fullmatch(r"!<Iter<'a;T> as Iterator>::any\\(slice::iter\\(.*\\.queries\\),closure:<UdpRequest<P> as Request>::send::\\{closure#0\\}::\\{closure@any#0\\}::\\{closure@any#0\\}\\)".replace('\\\\', '\\'), r_[0].term)),
                 dual.path, 'ret', 'dual-outer-closure-negates-the-inner-any', '; '.join(x.term[:160] for x in r_))
    c1 = cx.fn('C16.G1', U + ('::{closure@any#0}::{closure@any#0}' if dual is not None else '::{closure@all#1}::{closure@any#0}'))
    if c1:
        t = cx.true_returns(c1)
        cx.guard('C16.G1', t, {'same-query': r'^eq:Query\(\^arg2,arg2\)$|^eq:Query\(arg2,\^arg2\)$', 'same-case': r'^Name::eq_case\(arg2\.name,\^arg2\.name\)$|^Name::eq_case\(\^arg2\.name,arg2\.name\)$'}, fn=c1)
        cx.check('C16.G1', len(t) >= 1, c1.path, 'ret', 'true-return-present', str(len(t)))

    # ---------------------------------------------------------------- S2 what the receive loop is configured with
    # the accept guards of send() read self.case_randomization, self.name_server and self.request: they mean what the property says
    # only if UdpRequest::new fills them from the request's own options / the stream's configured peer / the request itself
    # (e.g. deriving the case flag from "an original query was recorded" silently disables the 0x20 check for hand-built requests)
    un = cx.fn('C16.S2', 'hickory_net::udp::udp_client_stream::UdpRequest::new')
    if un:
        cons = cx.constructions(un, 'hickory_net::udp::udp_client_stream::UdpRequest')
        cx.check('C16.S2', len(cons) == 1, un.path, 'construct', 'single-construction', str(len(cons)))
        want = {'case_randomization': r'^DnsRequest::options\(arg1\)\.case_randomization$', 'name_server': r'^arg2\.name_server$', 'request': r'^arg1$',
                'signer': r'^phi\(Option::None\|arg2\.signer\)$|^arg2\.signer$'}
        for (bi, si, loc), flds in cons:
            for k, rx in want.items():
                ok = bool(re.search(rx, flds.get(k, '')))
                cx.check('C16.S2', ok, un.path, 'field:' + k, 'receive-loop-input-provenance:' + k, flds.get(k, 'missing')[:160], loc,
                         sample={'fn': 'UdpRequest::new', 'field': k, 'value': flds.get(k, '')[:80], 'holds': ok})
    # ---------------------------------------------------------------- G2 multiplexer ids
    sm = cx.fn('C16.G2', '<hickory_net::xfer::dns_multiplexer::DnsMultiplexer<S> as hickory_net::xfer::DnsRequestSender>::send_message')
    if sm:
        ins = cx.calls(sm, r'HashMap<K, V, S, A>::insert$|HashMap::insert$')
        ins = [s for s in ins if 'active_requests' in s.term]
        SEND = r'^ok\(<BufDnsStreamHandle as DnsStreamHandle>::send\(arg1\.stream_handle,SerialMessage::new\(Message::to_vec\(var\(\w+\)\)@Ok\.0,'
        cx.guard('C16.G2', ins, {'below-capacity': r'^lt\(HashMap::len\(arg1\.active_requests\),arg1\.max_active_requests\)$',
                                 'fresh-id-obtained': r'^ok\(DnsMultiplexer::next_random_query_id\(arg1\)\)$',
                                 'bytes-accepted-by-stream': SEND}, expect=1, fn=sm)
        for s in ins:
            ok = bool(re.search(r'^HashMap::insert\(arg1\.active_requests,ActiveRequest::request_id\(ActiveRequest::new\(.*?,var\(\w+\)(\.metadata)?\.id,', s.term))
            cx.check('C16.G2', ok, sm.path, s.key(), 'key-is-the-request-id', s.term[:200], s.loc)
        ids = cx.assigns(sm, r'^DnsMultiplexer::next_random_query_id\(arg1\)@Ok\.0$', place=r'\.id$')
        cx.check('C16.G2', len(ids) == 1, sm.path, 'store', 'request-id-set-from-fresh-id', str(len(ids)))
        tv = cx.calls(sm, r'Message::to_vec$')
        if ids and tv:
            cx.check('C16.G2', all(t.bb in cx.reachable_from(sm, [ids[0].bb]) and ids[0].bb not in cx.reachable_from(sm, sm.succs(t.bb)) for t in tv),
                     sm.path, 'order', 'id-stored-before-serialising', '')
    nid = cx.fn('C16.G2', M + 'DnsMultiplexer::next_random_query_id')
    if nid:
        oks = cx.returns(nid, r'^Result::Ok\(')
        # the same decision written as an iterator chain: candidates.find(|id| !active.contains_key(id)).ok_or_else(..)
        chain = [s_ for s_ in cx.returns(nid, r'.') if re.search(r'^Option::ok_or(_else)?\(Iterator::find\(.*,closure:(DnsMultiplexer::next_random_query_id::\{closure@find#\d+\})\),', s_.term)]
        if chain and not oks:
            cx.check('C16.G2', len(chain) == 1, nid.path, 'ret', 'single-selection', str(len(chain)))
            cn_ = re.search(r'closure:(DnsMultiplexer::next_random_query_id::\{closure@find#\d+\})', chain[0].term).group(1)
            pc = cx.prog.fn('hickory_net::xfer::dns_multiplexer::' + cn_)
            rt = cx.returns(pc, r'.') if pc else []
            cx.check('C16.G2', len(rt) == 1 and bool(re.fullmatch(r'!HashMap::contains_key\(\^arg1\.active_requests,arg2\)', rt[0].term)), nid.path, 'ret',
                     'id-selected-by-find(not active)', '; '.join(x.term[:120] for x in rt))
        else:
            cx.guard('C16.G2', oks, {'id-not-active': r'^!HashMap::contains_key\(arg1\.active_requests,RngExt::random\(.*\)\)$'}, expect=1, fn=nid)
            for s in oks:
                m = re.search(r'^Result::Ok\((.*)\)$', s.term)
                cx.check('C16.G2', bool(m) and cx.has_guard(s, r'^!HashMap::contains_key\(arg1\.active_requests,' + re.escape(m.group(1)) + r'\)$'), nid.path, s.key(), 'returns-the-checked-id', s.term, s.loc)

    # ---------------------------------------------------------------- S1 routing
    pn = cx.fn('C16.S1', '<hickory_net::xfer::dns_multiplexer::DnsMultiplexer<S> as futures_core::stream::Stream>::poll_next')
    if pn:
        RESP = r'DnsResponse::from_buffer\(SerialMessage::into_parts\(StreamExt::poll_next_unpin\(arg1\.stream,arg2\)@Ready\.0@Some\.0@Ok\.0\)\.0\)'
        ts = cx.calls(pn, r'Sender<T>::try_send$|Sender::try_send$')
        cx.guard('C16.S1', ts, {'entry-for-response-id-occupied': rf'^is\(HashMap::entry\(arg1\.active_requests,{RESP}@Ok\.0(\.\w+)*\.id\),Occupied\)$',
                                'decoded': rf'^ok\({RESP}\)$'}, fn=pn)
        cx.check('C16.S1', 1 <= len(ts) <= 2, pn.path, 'calls', 'completion-send-count', str(len(ts)))
        for s in ts:
            ok = bool(re.search(rf'^Sender::try_send\(OccupiedEntry::get_mut\(HashMap::entry\(arg1\.active_requests,{RESP}@Ok\.0(\.\w+)*\.id\)@Occupied\.0\)\.completion,', s.term))
            cx.check('C16.S1', ok, pn.path, s.key(), 'completes-the-entry-of-the-response-id', s.term[:220], s.loc)
        en = cx.calls(pn, r'HashMap<K, V, S, A>::entry$|HashMap::entry$')
        cx.check('C16.S1', len(en) == 1, pn.path, 'calls', 'single-entry-lookup', str(len(en)))
        # ---------------------------------------------------------------- P1 close
        ca = cx.calls(pn, r'DnsMultiplexer::stream_closed_close_all$')
        # (the failing tail may be written once, or once per arm - stream error / clean end - e.g. through a shared private helper)
        cx.check('C16.P1', len(ca) >= 1, pn.path, 'calls', 'close_all-present', str(len(ca)))
        dones = [s for s in cx.returns(pn, r'^Poll::Ready\(Option::None\)$')]
        late = [s for s in dones if not cx.has_guard(s, r'^HashMap::is_empty\(arg1\.active_requests\)$')]
        cx.must_pass('C16.P1', pn, late, via_blocks={s.bb for s in ca}, what='close_all-before-reporting-end')
        cx.check('C16.P1', len(late) == len(ca) and len(dones) == len(late) + 1, pn.path, 'ret', 'end-of-stream-returns', f'{len(dones)} Ready(None), {len(late)} with pending requests possible')
        # stream end / error arm reaches close_all: the arm is the Ready(non-Ok) edge
        cx.guard('C16.P1', ca, {'stream-ready': r'^is\(StreamExt::poll_next_unpin\(arg1\.stream,arg2\),Ready\)$'}, fn=pn)
        sh = cx.assigns(pn, r'^true$', place=r'is_shutdown$')
        cx.check('C16.P1', len(sh) == len(ca) and bool(ca) and all(any(h.bb in cx.reachable_from(pn, [c_.bb]) for h in sh) for c_ in ca), pn.path, 'store', 'shutdown-after-close_all', str(len(sh)))
        cx.must_pass('C16.P1', pn, late, via_blocks={h.bb for h in sh}, what='shutdown-marked-before-reporting-end')
    ca_ = cx.fn('C16.P1', M + 'DnsMultiplexer::stream_closed_close_all')
    if ca_:
        dr = cx.calls(ca_, r'HashMap<K, V, S, A>::drain$|HashMap::drain$')
        ce = cx.calls(ca_, r'ActiveRequest::complete_with_error$')
        cx.check('C16.P1', len(dr) == 1 and 'arg1.active_requests' in dr[0].term, ca_.path, 'calls', 'drains-all-entries', str(len(dr)))
        cx.guard('C16.P1', ce, {'each-drained-entry': r"^ok\(<Drain<'a;K;V;A> as Iterator>::next\(HashMap::drain\(arg1\.active_requests\)\)\)$"}, expect=1, fn=ca_)
        rets = [i for i, b in enumerate(ca_.blocks) if b['t'][0] == 'return' and not b['cleanup']]
        from api import Site
        cx.guard('C16.P1', [Site(ca_, r, None, 'ret', 'return', label='return') for r in rets],
                 {'all-entries-completed': r"^!ok\(<Drain<'a;K;V;A> as Iterator>::next\(HashMap::drain\(arg1\.active_requests\)\)\)$"}, fn=ca_)
    dc = cx.fn('C16.P1', M + 'DnsMultiplexer::drop_cancelled')
    if dc:
        rm = cx.calls(dc, r'HashMap<K, V, S, A>::remove$|HashMap::remove$')
        ce = cx.calls(dc, r'ActiveRequest::complete_with_error$')
        cx.check('C16.P1', len(rm) == 1 and len(ce) == 1, dc.path, 'calls', 'remove-and-complete', f'remove={len(rm)} complete={len(ce)}')
        for s in ce:
            cx.check('C16.P1', bool(re.search(r'^ActiveRequest::complete_with_error\(HashMap::remove\(arg1\.active_requests,', s.term)), dc.path, s.key(), 'completes-exactly-the-removed-entry', s.term[:160], s.loc)
    # who touches active_requests mutably
    ws = [w for w in writers(cx.prog, r'dns_multiplexer::DnsMultiplexer$', r'^active_requests$') if w[4] != 'construct']
    allowed = {M + 'DnsMultiplexer::drop_cancelled', M + 'DnsMultiplexer::stream_closed_close_all',
               '<hickory_net::xfer::dns_multiplexer::DnsMultiplexer<S> as hickory_net::xfer::DnsRequestSender>::send_message',
               '<hickory_net::xfer::dns_multiplexer::DnsMultiplexer<S> as futures_core::stream::Stream>::poll_next'}
    bad = sorted({w[0].path for w in ws} - allowed)
    cx.check('C16.W1', not bad and len(ws) >= 4, M + 'DnsMultiplexer', 'writers', 'active_requests-writers', ', '.join(bad) or f'{len(ws)} mutable uses')

    # ---------------------------------------------------------------- N1 argument names agree with the parameters they are bound to (engine/argnames.py)
    # ---------------------------------------------------------------- R1 the first transmission that finishes decides
    # retry() races the retransmissions of one query; each transmission examines at most three datagrams (G1) and then fails.  The
    # result of the first one to finish - Ok or Err - is the result of the query: an error that is swallowed while a retransmission
    # is still in flight gives an off-path sender three fresh guesses per retransmission
    rt = cx.fn('C16.R1', 'hickory_net::udp::udp_client_stream::retry::{closure#0}')
    if rt:
        SEL = r'await\(poll_fn::poll_fn\(closure:udp_client_stream::retry::\{closure#0\}::\{closure@poll_fn#0\}\)\)@Ready\.0@_0\.0'
        done = [s_ for bb in range(len(rt.blocks)) for s_, ps in rt.edge_props(bb).items() if any(re.search(rf'^ok\({SEL}\)$', shorten(p_)) for p_ in ps)]
        cx.check('C16.R1', len(done) >= 1, rt.path, 'edges', 'finished-transmission-edge-present', str(len(done)))
        after = cx.reachable_from(rt, done) if done else set()
        again = [c_ for c_ in cx.calls(rt, r'poll_fn::poll_fn$') if c_.bb in after]
        cx.check('C16.R1', not again, rt.path, 'path', 'a-finished-transmission-ends-the-race(its result is returned, Ok or Err)',
                 'the select loop is re-entered after a transmission has finished', again[0].loc if again else '')
        rets = [r_ for r_ in cx.returns(rt, r'.') if r_.bb in after]
        cx.check('C16.R1', len(rets) == 1 and bool(re.search(rf'^{SEL}@Some\.0$', rets[0].term)), rt.path, 'ret', 'returns-the-finished-transmission-result-as-is', '; '.join(r_.term[:120] for r_ in rets))
    argnames.check(cx, 'C16.N1', r'hickory_net::(udp|xfer)', floor=25)
    argnames.check_fields(cx, 'C16.N1', r'hickory_net::(udp|xfer)', floor=42)


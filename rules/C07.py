"""C07 — Secure implies an unbroken chain to a trust anchor: origin census of Proof::Secure /
Proof::Insecure, DS->DNSKEY guard set, who writes Record.proof, verify_response exits, server AD/SERVFAIL mapping."""
import re
import argnames
import helpers
from collections import Counter
from api import shorten, writers, Site
import C06

EXPLANATION = (
    "WRITE/GUARD/TABLE rules over the feature-full build: (SIG) the signature-acceptance guard sets of C06.G1-G3 (a chain link is a signature over exactly that RRset by a Secure zone key inside its window), (W1) every construction of Proof::Secure and Proof::Insecure in "
    "hickory-net/-resolver/-server is one of the reviewed origins (trust-anchor match, DS-covers-DNSKEY, signature check, the "
    "NSEC/NSEC3 yields, proven DS absence / unsupported algorithms) - a new origin is a violation; (G1) verify_dnskey returns "
    "Secure only for a supported key algorithm, a Secure DS with equal algorithm and key tag, within the key-tag collision cap, "
    "and DS::covers == Ok(true); (G2) verify_dnskey_rrset returns Ok only from a self-signature by a key that is Secure and owned "
    "by the signer name, or when every key is a trust anchor; Insecure only when a non-empty DS set has only unsupported "
    "algorithms; (G5) RrsigValidity::check requires the signer name to enclose the RRset owner; fetch_ds_records reports Insecure "
    "only from a response obtained through the validating handle; (W2) Record.proof is stored only by VerifiedRrset::update_rrset; "
    "DnssecDnsHandle::send forces DO, AD=1, CD=0 and routes every query response through verify_response; (G3) the four Ok exits "
    "of verify_response; (G4) the server sets AD only for a Secure summary under AD|DO and turns Bogus into SERVFAIL with the "
    "records dropped unless CD; DnssecSummary::from_records yields Secure only if no record was non-secure; (G2, cont.) find_ds_records asks for the DS of an ancestor "
    "only if that ancestor answered the NS probe and is not the root (the trust-anchor zone is never downgraded); (S2) the validation "
    "cache key rule shared with C06; (H/N1) helper semantics and argument/field name agreement over hickory_net::dnssec.")
NOT_DECIDED = ("That the recursive DNSKEY/DS sub-queries interleave correctly for every hierarchy and fault placement (histories); "
               "the cryptographic digest/signature primitives.")
ASSUMPTIONS = ["FULL feature configuration", "origin census covers MIR aggregates and constants; values read from the wire go "
               "through Proof::default() = Indeterminate (proto does not decode proofs)"]

N = 'hickory_net::dnssec::'

SECURE_ORIGINS = {   # fn -> count (reviewed)
    N + 'DnssecDnsHandle::is_dnskey_in_root_store': 1,
    N + 'verify_dnskey': 1,
    N + 'verify_rrset_with_dnskey': 1,
    N + 'verify_nsec': 5,   # direct match, empty non-terminal (F30), NXDOMAIN, wildcard expansion, wildcard NODATA
    N + 'nsec3::validate_nodata_response': 5,   # 6 before fix af62ef8 removed the apex arm that rested on no NSEC3 record (F22)
    N + 'nsec3::validate_nxdomain_response': 2,
}
INSECURE_ORIGINS = {
    N + 'DnssecDnsHandle::fetch_ds_records::{closure#0}': 2,
    N + 'DnssecDnsHandle::verify_dnskey_rrset::{closure#0}': 1,
    N + 'nsec3::verify_nsec3': 1,
    N + 'verify_dnskey': 1,
    N + 'verify_dnskey::{closure@map_err#0}': 1,
    N + 'verify_rrsig_with_keys': 1,
}


def origins(prog, variant):
    c = Counter()
    where = {}
    for f in prog.fns.values():
        if f.crate == 'hickory_proto':
            continue
        for bi, b in enumerate(f.blocks):
            if b['cleanup']:
                continue
            for si, st in enumerate(b['s']):
                if st[0] == '=' and st[2][0] == 'adt' and st[2][1].endswith('::Proof') and st[2][2] == variant:
                    c[f.path] += 1
                    where.setdefault(f.path, []).append(f.loc(bi, si))
                if st[0] == '=' and st[2][0] == 'use' and st[2][1][0] == 'k' and st[2][1][1].get('adt', '').endswith('::Proof'):
                    if shorten(f.term_const(st[2][1][1], 0)).endswith('::' + variant):
                        c[f.path] += 1
                        where.setdefault(f.path, []).append(f.loc(bi, si))
    return c, where


def run(cx):
    # every chain link rests on signature acceptance: the C06 guard sets are necessary conditions here too
    C06.signature_rules(cx, 'C07.SIG')
    # ---------------------------------------------------------------- W1 origin census
    for variant, table in (('Secure', SECURE_ORIGINS), ('Insecure', INSECURE_ORIGINS)):
        c, where = origins(cx.prog, variant)
        for fn, n in c.items():
            cx.check('C07.W1', table.get(fn) == n, fn, 'origins', f'{variant}-origin-census',
                     f'{n} constructions of Proof::{variant} here, reviewed {table.get(fn, 0)}: ' + ', '.join(where[fn]))
        for fn, n in table.items():
            if fn not in c:
                cx.check('C07.W1', False, fn, 'origins', f'{variant}-origin-census', f'reviewed origin vanished (expected {n})')
    # proto: Proof is only produced by Default (Indeterminate), never decoded as Secure
    pc = Counter()
    for f in cx.prog.fns.values():
        if f.crate != 'hickory_proto':
            continue
        for b in f.blocks:
            for st in b['s']:
                if st[0] == '=' and st[2][0] == 'adt' and st[2][1].endswith('::Proof') and st[2][2] in ('Secure', 'Insecure'):
                    pc[f.path] += 1
    allowed = {'<hickory_proto::dnssec::proof::Proof as core::convert::From<u8>>::from',
               '<hickory_proto::dnssec::proof::Proof as core::clone::Clone>::clone'}
    for fn in pc:
        cx.check('C07.W1', fn in allowed or 'Deserialize' in fn or 'deserialize' in fn or '::tests::' in fn, fn, 'origins',
                 'proto-proof-origin', f'{pc[fn]} constructions of Secure/Insecure in hickory_proto')
    cx.floor('C07.W1', sum(1 for _ in SECURE_ORIGINS) + len(INSECURE_ORIGINS), 12, 'origin table size')

    # ---------------------------------------------------------------- G1 verify_dnskey
    f = cx.fn('C07.G1', N + 'verify_dnskey')
    if f:
        # the DS record under test comes from `ds_records.iter().filter(|ds| ds.proof.is_secure())`, or from a plain loop over the slice
        # whose body skips a record that is not secure before anything else is decided from it
        filt = (N + 'verify_dnskey::{closure@filter#0}') in cx.prog.fns or bool(cx.calls(f, r'Iterator::filter$'))
        if filt:
            DSREC = r"<Filter<I;P> as Iterator>::next\(Iterator::filter\(slice::iter\(arg2\),closure:dnssec::verify_dnskey::\{closure@filter#0\}\)\)@Some\.0"
        else:
            DSREC = r"<Iter<'a;T> as Iterator>::next\((?:arg2|slice::iter\(arg2\))\)@Some\.0"
        sec = cx.returns(f, r'^Result::Ok\(Proof::Secure\)$')
        req = {
            'key-algorithm-supported': r'^Algorithm::is_supported\(<DNSKEY as Verifier>::algorithm\(RecordRef::data\(arg1\)\)\)$',
            'ds-algorithm-equals-key-algorithm': rf'^eq:Algorithm\(<DNSKEY as Verifier>::algorithm\(RecordRef::data\(arg1\)\),DS::algorithm\({DSREC}\.data\)\)$',
            'ds-key-tag-equals-key-tag': rf'^eq\(DS::key_tag\({DSREC}\.data\),try\(Result::map_err\(DNSKEY::calculate_key_tag\(RecordRef::data\(arg1\)\),.*\)\)@Continue\.0\)$',
            'collision-cap': r'^le\(.*,const:dnssec::MAX_KEY_TAG_COLLISIONS\)$',
            'ds-digest-covers-key': rf'^Result::unwrap_or\(DS::covers\({DSREC}\.data,RecordRef::name\(arg1\),RecordRef::data\(arg1\)\),false\)$',
        }
        if not filt:
            req['only-secure-ds-records'] = rf'^Proof::is_secure\({DSREC}\.proof\)$'
        cx.guard('C07.G1', sec, req, expect=1, fn=f)
        oks = cx.returns(f, r'^Result::Ok\(')
        cx.check('C07.G1', len(oks) == 1, f.path, 'returns', 'single-ok-return', '; '.join(s.term for s in oks))
        if filt:
            c1 = cx.fn('C07.G1', N + 'verify_dnskey::{closure@filter#0}')
            if c1:
                t = cx.true_returns(c1)
                cx.check('C07.G1', len(t) == 1 and t[0].term == 'Proof::is_secure(arg2.proof)', c1.path, 'ret', 'only-secure-ds-records',
                         '; '.join(s.term for s in t))

    # ---------------------------------------------------------------- G5 signer encloses owner (F8)
    f = cx.fn('C07.G5', N + 'RrsigValidity::check')
    if f:
        cx.guard('C07.G5', cx.returns(f, r'^RrsigValidity::ValidRrsig$'), {
            'signer-encloses-owner(RFC4035-5.3.1)':
                r'^Name::zone_of\(SIG::input\(RecordRef::data\(arg1\)\)\.signer_name,RrKey::name\(arg2\)\)$|'
                r'^Name::zone_of\(SIG::input\(RecordRef::data\(arg1\)\)\.signer_name,arg2\.name\)$'}, expect=1, fn=f)

    # (F39) the same for the verdict that needs no signature check at all: verify_rrsig_with_keys hands an RRset the Insecure
    # state of the signer's DNSKEYs ("inherit Insecure").  "Insecure is reported only when a validated denial proves the delegation
    # has no DS": the provably insecure zone must be the one the record lies in - the signer named by the RRSIG must enclose the
    # owner - or any tampered record of a signed zone can be made Insecure instead of Bogus by attaching an RRSIG that names an
    # unrelated unsigned zone which publishes DNSKEY records
    f = cx.fn('C07.G5', N + 'verify_rrsig_with_keys')
    if f:
        cx.guard('C07.G5', cx.returns(f, r'Proof::Insecure'), {
            'insecure-inherited-only-from-an-enclosing-signer':
                r'^Name::zone_of\(SIG::input\(RecordRef::data\(arg2\)\)\.signer_name,RrKey::name\(arg3\)\)$|'
                r'^Name::zone_of\(SIG::input\(RecordRef::data\(arg2\)\)\.signer_name,arg3\.name\)$',
            'every-key-of-the-signer-is-insecure': r'^Option::unwrap_or\(phi\(Option::None\|Option::Some\(false\)\),false\)$|^eq:Option\(Option::Some\(true\),phi\(Option::None\|Option::Some\(false\)\)\)$'},
            expect=1, fn=f)

    # ---------------------------------------------------------------- G2 verify_dnskey_rrset
    f = cx.fn('C07.G2', N + 'DnssecDnsHandle::verify_dnskey_rrset::{closure#0}')
    if f:
        oks = cx.returns(f, r'^Result::Ok\(RrsetProof\(')
        cx.check('C07.G2', len(oks) == 2, f.path, 'returns', 'ok-return-count', f'{len(oks)} Ok(RrsetProof) returns, 2 reviewed')
        selfsig = [s for s in oks if 'Iterator::find_map(' in s.term]
        anchors = [s for s in oks if s not in selfsig]
        cx.guard('C07.G2', selfsig, {'self-signature-verified': r'^ok\(Iterator::find_map\(Iterator::filter_map\(Iterator::filter\(Iterator::filter\(Iterator::zip\('}, expect=1, fn=f)
        for s in selfsig:
            m = re.search(r'Iterator::filter\(Iterator::filter\(Iterator::zip\(.*?\),closure:(\S+?\{closure[^}]*\})\),closure:(\S+?\{closure[^}]*\})\),closure:(\S+?\{closure[^}]*\})\),closure:(\S+?\{closure[^}]*\})\)', s.term)
            cx.check('C07.G2', bool(m), f.path, s.key(), 'filter-chain-shape', s.term[:200], s.loc)
            if m:
                cl = {}
                for g in cx.prog.find(r'verify_dnskey_rrset::\{closure#0\}::\{closure[^}]*\}$'):
                    cl[shorten(g.path + '(')[:-1].split('::', 1)[-1] if False else g.path.rsplit('::', 1)[-1]] = g
                names = [x.rsplit('::', 1)[-1] for x in m.groups()]
                want = [('key-proof-secure', r'^Proof::is_secure\(arg2\.1\.0\)$'),
                        ('key-owner-equals-signer-name', r'^eq:Name\((SIG::input\(.*\)\.signer_name,arg2\.0\.name|arg2\.0\.name,SIG::input\(.*\)\.signer_name)\)$')]
                for (nm, rx), cn in zip(want, names[:2]):
                    g = cl.get(cn)
                    tr = cx.true_returns(g) if g else []
                    cx.check('C07.G2', bool(tr) and all(re.search(rx, t.term) or cx.has_guard(t, rx) for t in tr), f.path, s.key(), 'filter:' + nm,
                             '; '.join(t.term[:120] for t in tr), s.loc)
                g = cl.get(names[3])
                tr = cx.returns(g, r'.') if g else []
                cx.check('C07.G2', bool(tr) and all(re.search(r'^Result::ok\(dnssec::verify_rrset_with_dnskey\(arg2\.0,arg2\.1,', t.term) for t in tr),
                         f.path, s.key(), 'verdict-from-verify_rrset_with_dnskey', '; '.join(t.term[:120] for t in tr), s.loc)
        cx.guard('C07.G2', anchors, {'every-key-is-secure(trust-anchor-or-DS)':
                 r"^<Iter<'a;T> as Iterator>::all\(slice::iter\(.*\),closure:DnssecDnsHandle::verify_dnskey_rrset::\{closure#0\}::\{closure@all#2\}\)$"}, expect=1, fn=f)
        c7 = cx.fn('C07.G2', N + 'DnssecDnsHandle::verify_dnskey_rrset::{closure#0}::{closure@all#2}')
        if c7:
            t = cx.true_returns(c7)
            cx.check('C07.G2', len(t) == 1 and t[0].term == 'Proof::is_secure(arg2.0)', c7.path, 'ret', 'all-secure-predicate', '; '.join(s.term for s in t))
        ins = cx.returns(f, r'Proof::Insecure')
        cx.guard('C07.G2', ins, {'ds-set-non-empty': r'^!(?:Vec|slice)::is_empty\(',
                                 'all-usable-ds-unsupported': r'^Iterator::all\(Iterator::filter\(slice::iter\('}, expect=1, fn=f)
        # DS records are fetched unless every key is a trust anchor or the owner is the root
        ds = cx.calls(f, r'DnssecDnsHandle::fetch_ds_records$')
        cx.check('C07.G2', len(ds) == 1, f.path, 'calls', 'ds-fetch-present', str(len(ds)))

    # ---------------------------------------------------------------- fetch_ds_records / find_ds_records
    f = cx.fn('C07.G2', N + 'DnssecDnsHandle::fetch_ds_records::{closure#0}')
    if f:
        LK = r'await\(FirstAnswer::first_answer\(DnsHandle::lookup\(\^arg1,Query::new\(\^arg2,RecordType::DS\),\^arg3\)\)\)'
        ins = cx.returns(f, r'Proof::Insecure')
        cx.check('C07.G2', len(ins) == 2, f.path, 'returns', 'insecure-count', str(len(ins)))
        cx.guard('C07.G2', ins, {'validated-DS-response(self.lookup)': rf'^ok\({LK}@Ready\.0\)$'}, fn=f)
        # The two tests over the validated answer section are decided by what they MEAN, whichever combinator spells them:
        #   exists(C): any(filter(iter(answers), F), A) with C = F's and A's conjuncts | any(iter(answers), A)
        #   none(C)  : !any(iter(answers), A) | all(iter(answers), B) with B = !C (single literal)
        ANS = rf'slice::iter\({LK}@Ready\.0@Ok\.0\.answers\)'
        CL = r'closure:(DnssecDnsHandle::fetch_ds_records::\{closure#0\}::\{closure@\w+#\d+\})'
        DS_T, SEC_T = 'eq:RecordType(RecordType::DS,Record::record_type(arg2))', 'Proof::is_secure(arg2.proof)'

        def conj(cname):
            c = cx.prog.fns.get('hickory_net::dnssec::' + cname)
            if c is None:
                return None
            t = cx.true_returns(c)
            if len(t) != 1:
                return None
            from core import path_props
            return frozenset(t[0].extra) | frozenset(shorten(x) for x in (path_props(c, t[0].bb) or []) if shorten(x) != 'true')

        def meaning(prop):
            neg = prop.startswith('!')
            q = prop[1:] if neg else prop
            m = re.match(rf"^Iterator::any\(Iterator::filter\({ANS},{CL}\),{CL}\)$", q)
            if m:
                a, b = conj(m.group(1)), conj(m.group(2))
                return None if a is None or b is None else (('none' if neg else 'exists'), a | b)
            m = re.match(rf"^<Iter<'a;T> as Iterator>::any\({ANS},{CL}\)$", q)
            if m:
                a = conj(m.group(1))
                return None if a is None else (('none' if neg else 'exists'), a)
            m = re.match(rf"^<Iter<'a;T> as Iterator>::all\({ANS},{CL}\)$", q)
            if m and not neg:
                a = conj(m.group(1))
                if a is not None and len(a) == 1 and next(iter(a)).startswith('!'):
                    return ('none', frozenset({next(iter(a))[1:]}))
            return None
        allp = {shorten(p_) for bb in range(len(f.blocks)) for ps in f.edge_props(bb).values() for p_ in ps}

        def rx_for(want):
            hits = [p_ for p_ in sorted(allp) if meaning(p_) == want]
            return '^(?:' + '|'.join(re.escape(h) for h in hits) + ')$' if hits else r'^\b$'
        SEC_PRESENT = rx_for(('exists', frozenset({DS_T, SEC_T})))
        NO_DS = rx_for(('none', frozenset({DS_T})))
        nods = [s for s in ins if 'DsResponseInsecure' in s.term]
        cx.guard('C07.G2', nods, {'no-DS-record-in-validated-response': NO_DS}, expect=1, fn=f)
        unk = [s for s in ins if 'UnknownKeyAlgorithm' in s.term]
        ALLU = r'phi\(Option::None\|Option::Some\(false\)\)'
        cx.guard('C07.G2', unk, {'secure-DS-present': SEC_PRESENT,
                                 'all-unknown': rf'^Option::unwrap_or\({ALLU},false\)$|^eq:Option\(Option::Some\(true\),{ALLU}\)$|^eq:Option\({ALLU},Option::Some\(true\)\)$'}, expect=1, fn=f)
        oks = cx.returns(f, r'^Result::Ok\(')
        cx.guard('C07.G2', oks, {'secure-DS-present': SEC_PRESENT,
                                 'supported-non-empty': r'^!Vec::is_empty\('}, expect=1, fn=f)

    # find_ds_records: the search for the enclosing zone cut walks up from the name and asks the zone it finds for its DS; "no DS,
    # proven" makes everything below Insecure.  The ROOT has no parent and no DS by construction - it is the trust anchor zone -
    # so it must never be accepted as the cut whose missing DS downgrades a name: the DS fetch is reached only for a non-root
    # ancestor that answered the NS probe with an NS record
    fd = cx.fn('C07.G2', N + 'DnssecDnsHandle::find_ds_records::{closure#0}')
    if fd:
        ANC = r'phi\(\^arg2\|Name::base_name\(rec\(_\d+\)\)\)'
        fe = cx.calls(fd, r'DnssecDnsHandle<H>::fetch_ds_records$|DnssecDnsHandle::fetch_ds_records$')
        cx.guard('C07.G2', fe, {'zone-cut-is-not-the-root': rf'^!Name::is_root\({ANC}\)$',
                                'ancestor-has-NS-records': rf'^Iterator::any\(Message::all_sections\(await\(FirstAnswer::first_answer\(DnsHandle::lookup\(\^arg1\.handle,Query::new\({ANC},RecordType::NS\),\^arg3\)\)\)@Ready\.0@Ok\.0\),closure:.*\)$'},
                 expect=1, fn=fd)
        for s_ in fe:
            cx.check('C07.G2', bool(re.search(rf'^DnssecDnsHandle::fetch_ds_records\(\^arg1,{ANC},\^arg3\)$', s_.term)), fd.path, s_.key(), 'ds-asked-of-the-ancestor-found', s_.term[:160], s_.loc)

    # ---------------------------------------------------------------- W2 writers of Record.proof; send()
    ws = writers(cx.prog, r'^hickory_proto::rr::record::Record$', r'^proof$')
    stores = [w for w in ws if w[4] in ('store', 'mutref')]
    bad = [w for w in stores if w[0].path != N + 'VerifiedRrset::update_rrset' and w[0].crate != 'hickory_proto']
    cx.check('C07.W2', not bad and any(w[0].path == N + 'VerifiedRrset::update_rrset' for w in stores),
             N + 'VerifiedRrset::update_rrset', 'writers', 'proof-writer-set',
             '; '.join(f'{w[0].path} ({w[4]}) @ {w[0].loc(w[1], w[2])}' for w in bad) or f'{len(stores)} stores')
    pstores = sorted({w[0].path for w in stores if w[0].crate == 'hickory_proto'})
    allowed_proto = {'hickory_proto::rr::record::Record::set_proof'}
    cx.check('C07.W2', set(pstores) <= allowed_proto, 'hickory_proto::rr::record::Record', 'writers', 'proto-proof-writers', ', '.join(pstores))
    # non-test callers of a public proof setter outside the validator
    setters = []
    for f in cx.prog.fns.values():
        for bi, c, t in cx.prog.calls_of(f):
            if any(n.endswith('Record::set_proof') for n in f.callee_names(c)):
                setters.append(f'{f.path} @ {f.loc(bi)}')
    cx.check('C07.W2', all(s.startswith(N) for s in setters), '-', 'callers', 'set_proof-callers', '; '.join(setters))
    s = cx.fn('C07.W2', '<hickory_net::dnssec::DnssecDnsHandle<H> as hickory_net::xfer::dns_handle::DnsHandle>::send')
    if s:
        up = [x for x in cx.calls(s, r'DnsHandle::send$') if cx.has_guard(x, r'^is\(arg2\.metadata\.op_code,Query\)$|^is\(arg2\.op_code,Query\)$|^is\(.*op_code,Query\)$')]
        cx.check('C07.W2', len(up) == 1, s.path, 'calls', 'query-forward-count', str(len(up)))
        ad = cx.assigns(s, r'^true$', place=r'authentic_data$')
        cd = cx.assigns(s, r'^false$', place=r'checking_disabled$')
        do = cx.calls(s, r'Edns::enable_dnssec$')
        thn = cx.calls(s, r'FutureExt::then$|::then$')
        cx.check('C07.W2', len(ad) == 1 and len(cd) == 1 and len(do) == 1 and len(thn) == 1, s.path, 'effects', 'forces-DO-AD-noCD-and-verifies',
                 f'AD={len(ad)} CD={len(cd)} DO={len(do)} then={len(thn)}')
        for x in up:
            for eff, sites in (('AD', ad), ('CD', cd), ('DO', do)):
                ok = bool(sites) and x.bb in cx.reachable_from(s, [sites[0].bb]) and sites[0].bb not in cx.reachable_from(s, [x.bb])
                cx.check('C07.W2', ok, s.path, x.key(), f'{eff}-set-before-forwarding', '', x.loc)
            ok = bool(thn) and thn[0].bb in cx.reachable_from(s, [x.bb])
            cx.check('C07.W2', ok, s.path, x.key(), 'response-routed-through-verify', '', x.loc)
    c0 = cx.fn('C07.W2', '<hickory_net::dnssec::DnssecDnsHandle<H> as hickory_net::xfer::dns_handle::DnsHandle>::send::{closure@then#0}')
    if c0:
        v = cx.calls(c0, r'DnssecDnsHandle::verify_response$')
        cx.check('C07.W2', len(v) == 1, c0.path, 'calls', 'verify_response-called', str(len(v)))

    # ---------------------------------------------------------------- G3 verify_response exits
    v = cx.fn('C07.G3', N + 'DnssecDnsHandle::verify_response::{closure#0}')
    if v:
        oks = cx.returns(v, r'^Result::Ok\(')
        cx.check('C07.G3', len(oks) == 4, v.path, 'returns', 'ok-exit-count', f'{len(oks)} Ok exits, 4 reviewed')
        kinds = {
            'authorities-all-insecure': r'^Iterator::all\(HashMap::iter\(await\(DnssecDnsHandle::verify_rrsets\(.*\.authorities\).*\)\)@Ready\.0\),closure:.*\{closure@all#0\}\)$',
            'answers-without-denial-records': r'^!Vec::is_empty\(.*\.answers\)$',
            'ds-lookup-proves-insecure': r'^eq:Proof\(Proof::Insecure,await\(DnssecDnsHandle::find_ds_records\(.*\)\)@Ready\.0@Err\.0\.proof\)$',
            'nsec-proof-secure': r'^Proof::is_secure\(',
        }
        for s_ in oks:
            held = [k for k, rx in kinds.items() if cx.has_guard(s_, rx)]
            cx.check('C07.G3', len(held) >= 1, v.path, s_.key(), 'ok-exit-justified', 'holds: ' + ','.join(held), s_.loc)
        cx.guard('C07.G3', oks, {'all-sections-verified-first': r'^is\(await\(DnssecDnsHandle::verify_rrsets\(.*\.additionals\).*\)\),Ready\)$'}, fn=v)
    c1 = cx.fn('C07.G3', N + 'DnssecDnsHandle::verify_response::{closure#0}::{closure@all#0}')
    if c1:
        t = cx.true_returns(c1)
        cx.guard('C07.G3', t, {'records-all': r"^<Iter<'a;T> as Iterator>::all\(slice::iter\(arg2\.1\.records\),", }, fn=c1)
        subs = cx.prog.find(r'verify_response::\{closure#0\}::\{closure@all#0\}::\{closure@all#\d+\}$')
        cx.check('C07.G3', len(subs) >= 1, c1.path, 'closures', 'insecure-predicate-present', str(len(subs)))
        for sub in subs:
            tt = cx.true_returns(sub)
            cx.check('C07.G3', len(tt) == 1 and tt[0].term == 'eq:Proof(Proof::Insecure,arg2.proof)', sub.path, 'ret', 'insecure-predicate', '; '.join(x.term for x in tt))

    # ---------------------------------------------------------------- G4 server mapping
    b = cx.fn('C07.G4', 'hickory_server::zone_handler::catalog::build_forwarded_response::{closure#0}')
    if b:
        ad = cx.assigns(b, r'^true$', place=r'authentic_data$')
        cx.guard('C07.G4', ad, {'summary-secure': r'^is\(DnssecSummary::from_records\(AuthLookup::iter\(.*\)\),Secure\)$',
                                'client-asked(AD|DO)': r'^\^arg2\.authentic_data$|^\^arg5\.dnssec_ok$',
                                'validation-enabled': r'^\^arg3$'}, expect=2, fn=b)
        sf = [s for s in cx.assigns(b, r'ResponseCode::ServFail', place=r'response_code$') if cx.has_guard(s, r'^is\(DnssecSummary::from_records\(.*\),Bogus\)$')]
        cx.guard('C07.G4', sf, {'checking-not-disabled': r'^!\^arg2\.checking_disabled$'}, expect=2, fn=b)
        # every path from a Bogus&&!CD edge to the end clears the records
        clear = cx.assigns(b, r'Default>::default\(\)$|AuthLookup::default\(\)$|^<AuthLookup as Default>::default\(\)$', place=None)
        for s in sf:
            nxt = cx.reachable_from(b, [s.bb])
            cx.check('C07.G4', any(c.bb in nxt for c in clear), b.path, s.key(), 'bogus-records-dropped', f'{len(clear)} clearing stores', s.loc)
    d = cx.fn('C07.G4', 'hickory_proto::dnssec::DnssecSummary::from_records')
    if d:
        sec = cx.returns(d, r'^DnssecSummary::Secure$')
        cx.guard('C07.G4', sec, {'no-non-secure-record-seen': r'^Option::unwrap_or\(phi\(Option::None\|Option::Some\(false\)\),false\)$',
                                 'all-records-seen': r'^!ok\(Iterator::next\('}, expect=1, fn=d)
        goi = cx.calls(d, r'Option::get_or_insert$')
        cx.guard('C07.G4', goi, {'only-on-secure-record': r'^is\(.*\.proof,Secure\)$'}, expect=1, fn=d)
        bog = cx.returns(d, r'^DnssecSummary::Bogus$')
        cx.guard('C07.G4', bog, {'bogus-record': r'^is\(.*\.proof,Bogus\)$'}, expect=1, fn=d)
        # the `_` arm assigns Some(false) before the next iteration
        other = [s for bb in range(len(d.blocks)) for s, ps in d.edge_props(bb).items() if any(re.search(r'^in\(.*\.proof,Insecure\|Indeterminate\)$', shorten(p)) for p in ps)]
        falses = cx.assigns(d, r'^Option::Some\(false\)$', place=None)
        cx.check('C07.G4', len(other) == 1 and len(falses) >= 1 and all(x.bb in other or x.bb in cx.reachable_from(d, other, avoid_blocks=[s.bb for s in goi]) for x in falses),
                 d.path, 'arm', 'non-secure-arm-clears-flag', f'arms={len(other)} stores={len(falses)}')

    # ---------------------------------------------------------------- S2 a cached Secure verdict covers exactly the RRset it was reached for
    C06.cache_key(cx, 'C07.S2')

    # ---------------------------------------------------------------- H helper semantics the guards above rely on (rules/helpers.py)
    helpers.check(cx, 'C07.H', ['Proof::is_secure', 'DS::covers', 'Algorithm::is_supported', 'Name::zone_of', 'DNSKEY::zone_key', 'DNSKEY::revoke', 'Name::base_name'])

    # ---------------------------------------------------------------- N1 argument names agree with the parameters they are bound to (engine/argnames.py)
    argnames.check(cx, 'C07.N1', r'hickory_net::dnssec', floor=80)
    argnames.check_fields(cx, 'C07.N1', r'hickory_net::dnssec', floor=45)


"""C18 — lookup succeeds if any server can answer, within the deadline: error-classification table, truncated => TCP retry,
deadline test on every round, sleep clamped to remaining budget, check-then-insert under one lock, failed connections dropped."""
import re
import argnames
from api import shorten, Site

EXPLANATION = (
    "TABLE/PATH/SLICE/GUARD rules over hickory-resolver's pool: (T1) in PoolState::try_send the only `return Err(e)` for a server "
    "error is taken for errors outside {QueryCaseMismatch, Busy, Io, NoConnections, Timeout, Dns} and, for Dns, outside "
    "'NXDOMAIN from a server whose negative answers are not trusted'; Busy servers are queued for the back-off round; a truncated "
    "answer and a QueryCaseMismatch both set policy.disable_udp = true and push the server back to the front before continuing; "
    "the answer is returned only for a non-truncated Ok; (P1) every round of the outer loop - also after each continue and after "
    "the back-off sleep - passes the `now >= deadline => Timeout` test before requests are built; the only sleep is "
    "delay_for(min(backoff, remaining)) with remaining = deadline - now and is preceded by remaining.is_zero() => Timeout; "
    "deadline = now + options.timeout; (P2) de-duplication: active.get(key) and active.insert(key, ..) use one lock guard, the "
    "insert happens only when get found nothing, the clean-up guard is created from is_creator and the shared future wraps "
    "state.try_send(request); (G1) NameServer::send_inner re-enters the loop only under reconnect_budget > 0, reused connection "
    "and connection-closed error, after decrementing the budget (initially 1); every send error marks the connection "
    "Status::Failed before any other outcome, so the next acquire drops it; (P1, cont.) the deadline is held by a variable that is assigned "
    "exactly once; (T2) when the byte stream ends, DnsMultiplexer fails every pending request with the stream's own error or with "
    "Io(UnexpectedEof|...) - the class is_connection_closed / the pool's fall-through recognise; (N1) argument/field name agreement (connect "
    "vs request timeout).")
NOT_DECIDED = "Completion time (needs the per-request timeouts of other layers and a clock); which server wins; fairness."
ASSUMPTIONS = ["FULL feature configuration", "mutable locals (backoff, busy, servers) appear under their initial-value names in terms"]

T = 'hickory_resolver::name_server_pool::PoolState::try_send::{closure#0}'
RES = r"await\(StreamExt::next\(Iterator::collect\(Iterator::map\(SmallVec::new\(\),closure:PoolState::try_send::\{closure#0\}::\{closure@map#0\}\)\)\)\)@Ready\.0@Some\.0\.1"
DEADLINE = r'<Instant as Add<Duration>>::add\(Instant::now\(\),\^arg1\.cx\.options\.timeout\)'
PAST = rf'le:Instant\({DEADLINE},Instant::now\(\)\)'


def run(cx):
    f = cx.fn('C18.T1', T)
    if f:
        rets = cx.returns(f, r'^Result::')
        ok = [s for s in rets if s.term.startswith('Result::Ok(')]
        cx.guard('C18.T1', ok, {'not-truncated': rf'^!{RES}@Ok\.0\.truncation$', 'server-answered': rf'^ok\({RES}\)$|^is\(.*,Ready\)$'}, expect=1, fn=f)
        hard = [s for s in rets if re.search(rf'^Result::Err\({RES}@Err\.0\)$', s.term)]
        cx.check('C18.T1', len(hard) == 1, f.path, 'returns', 'single-hard-error-return', f'{len(hard)}')
        # which error variants can reach the hard return?
        soft = {'QueryCaseMismatch', 'Busy', 'Io', 'NoConnections', 'Timeout'}
        for s in hard:
            bad = []
            for v in sorted(soft):
                if not cx.has_guard(s, rf'^in\({RES}@Err\.0,(?!.*\b{v}\b).*\)$|^is\({RES}@Err\.0,(?!{v}\)).*\)$'):
                    bad.append(v)
            cx.check('C18.T1', not bad, f.path, s.key(), 'transport-errors-never-end-the-search', 'variants that may reach `return Err(e)`: ' + ','.join(bad), s.loc)
            # NXDOMAIN from an untrusted server does not end the search
            nx = cx.has_guard(s, rf'^!is\({RES}@Err\.0@Dns\.0@NoRecordsFound\.0\.response_code,NXDomain\)$|^in\({RES}@Err\.0@Dns\.0@NoRecordsFound\.0\.response_code,(?!.*\bNXDomain\b).*\)$|^NameServer::trust_negative_responses\(.*\)$|^in\({RES}@Err\.0@Dns\.0,(?!.*\bNoRecordsFound\b).*\)$|^in\({RES}@Err\.0,(?!.*\bDns\b).*\)$')
            cx.check('C18.T1', nx, f.path, s.key(), 'untrusted-NXDOMAIN-does-not-end-the-search', '', s.loc)
        du = cx.assigns(f, r'^true$', place=r'disable_udp$')
        cx.check('C18.T1', len(du) == 2, f.path, 'stores', 'disable_udp-stores', str(len(du)))
        trunc = [s for s in du if cx.has_guard(s, rf'^{RES}@Ok\.0\.truncation$')]
        case = [s for s in du if cx.has_guard(s, rf'^is\({RES}@Err\.0,QueryCaseMismatch\)$')]
        cx.check('C18.T1', len(trunc) == 1 and len(case) == 1, f.path, 'stores', 'tcp-retry-for-truncation-and-case-mismatch', f'{len(trunc)}/{len(case)}')
        pf = cx.calls(f, r'VecDeque<T, A>::push_front$|VecDeque::push_front$')
        cx.check('C18.T1', len(pf) == 2, f.path, 'calls', 'server-requeued-twice', str(len(pf)))
        nxt = cx.calls(f, r'StreamExt::next$')
        for grp, nm in ((trunc, 'truncated'), (case, 'case-mismatch')):
            for s in grp:
                pfs = [p for p in pf if p.bb in cx.reachable_from(f, [s.bb], avoid_blocks=[n.bb for n in nxt]) or s.bb in cx.reachable_from(f, [p.bb], avoid_blocks=[n.bb for n in nxt])]
                cx.check('C18.T1', len(pfs) >= 1, f.path, s.key(), f'{nm}:server-requeued-with-udp-disabled-before-continuing', '', s.loc)
        bp = [s for s in cx.calls(f, r'SmallVec<A>::push$|SmallVec::push$') if cx.has_guard(s, rf'^is\({RES}@Err\.0,Busy\)$')]
        cx.check('C18.T1', len(bp) == 1, f.path, 'calls', 'busy-server-queued-for-backoff', str(len(bp)))
        # ------------------------------------------------------------ P1 deadline
        to = [s for s in rets if s.term == 'Result::Err(NetError::Timeout)']
        cx.check('C18.P1', len(to) == 2, f.path, 'returns', 'timeout-returns', str(len(to)))
        first = [s for s in to if cx.has_guard(s, '^' + PAST + '$')]
        cx.check('C18.P1', len(first) == 1, f.path, 'returns', 'deadline-test-returns-Timeout', str(len(first)))
        build = cx.calls(f, r'Iterator::collect$')
        build = [s for s in build if 'closure:PoolState::try_send::{closure#0}::{closure@map#0}' in s.term]
        cx.check('C18.P1', len(build) == 1, f.path, 'calls', 'request-batch-site', str(len(build)))
        sl = cx.calls(f, r'Time::delay_for$')
        cx.check('C18.P1', len(sl) == 1, f.path, 'calls', 'single-sleep', str(len(sl)))
        starts = [f.succs(s.bb)[0] for s in pf + sl + bp if f.succs(s.bb)]
        cx.must_pass('C18.P1', f, build, via_edge='^!' + PAST + '$', start_blocks=starts, what='deadline-checked-in-every-round-before-building-requests')
        cx.guard('C18.P1', build, {'deadline-not-passed': '^!' + PAST + '$'}, fn=f)
        for s in sl:
            REM = rf'Instant::saturating_duration_since\({DEADLINE},Instant::now\(\)\)'
            cx.check('C18.P1', bool(re.search(rf'^Time::delay_for\(Ord::min\(Duration::from_millis\(20\),{REM}\)\)$', s.term)), f.path, s.key(), 'sleep=min(backoff,remaining)', s.term[:200], s.loc)
            cx.guard('C18.P1', [s], {'budget-left': rf'^!Duration::is_zero\({REM}\)$', 'backoff-below-cap': r'^lt:Duration\(Duration::from_millis\(20\),Duration::from_millis\(300\)\)$'}, fn=f)
        # the budget is ONE deadline for the whole lookup: computed once, never re-armed (a server that truncates over TCP too, or
        # any other re-queue cycle, is ended by nothing else)
        cx.single_def('C18.P1', f, 'deadline-computed-once-per-lookup', '^' + DEADLINE + '$')
        second = [s for s in to if s not in first]
        cx.guard('C18.P1', second, {'no-budget-left': rf'^Duration::is_zero\(Instant::saturating_duration_since\({DEADLINE},Instant::now\(\)\)\)$'}, fn=f)
    # ---------------------------------------------------------------- P2 de-duplication
    g = cx.fn('C18.P2', '<hickory_resolver::name_server_pool::NameServerPool<P> as hickory_net::xfer::dns_handle::DnsHandle>::send::{closure@once#0}')
    if g:
        lk = [s for s in cx.calls(g, r'lock_api::mutex::Mutex<R, T>::lock$|Mutex::lock$') if 'active_requests' in s.term]
        gt = cx.calls(g, r'HashMap<K, V, S, A>::get$|HashMap::get$')
        ins = cx.calls(g, r'HashMap<K, V, S, A>::insert$|HashMap::insert$')
        cx.check('C18.P2', len(lk) == 1 and len(gt) == 1 and len(ins) == 1, g.path, 'calls', 'one-lock-one-get-one-insert', f'{len(lk)}/{len(gt)}/{len(ins)}')
        if lk and gt and ins:
            same = gt[0].term.startswith('HashMap::get(Mutex::lock(^arg1.active_requests),CacheKey::from_request(^arg2))') and ins[0].term.startswith('HashMap::insert(Mutex::lock(^arg1.active_requests),CacheKey::from_request(^arg2),')
            cx.check('C18.P2', same, g.path, 'calls', 'get-and-insert-same-guard-same-key', ins[0].term[:120])
            cx.guard('C18.P2', ins, {'not-already-active': r'^!ok\(HashMap::get\(Mutex::lock\(\^arg1\.active_requests\),CacheKey::from_request\(\^arg2\)\)\)$'}, fn=g)
            # the guard is not dropped between get and insert: no drop of a MutexGuard-typed local on the way
            between = cx.reachable_from(g, g.succs(gt[0].bb), avoid_blocks=[ins[0].bb])
            drops = [bi for bi in between if g.blocks[bi]['t'][0] == 'drop' and 'MutexGuard' in g.locals[g.blocks[bi]['t'][1] if isinstance(g.blocks[bi]['t'][1], int) else g.blocks[bi]['t'][1][0]]
                     and ins[0].bb in cx.reachable_from(g, [bi])]
            cx.check('C18.P2', not drops, g.path, 'drop', 'lock-held-from-get-to-insert', f'{len(drops)} guard drops before the insert')
            cx.check('C18.P2', 'PoolState::try_send' in ins[0].term or 'coroutine:' in ins[0].term, g.path, ins[0].key(), 'shared-future-is-the-upstream-exchange', ins[0].term[:200], ins[0].loc)
        th = cx.calls(g, r'bool::<impl bool>::then$|bool::then$')
        cx.check('C18.P2', len(th) == 1 and bool(re.search(r',false\)\|\(.*,true\)\)\.1,closure:', th[0].term)), g.path, 'call', 'cleanup-created-iff-creator', th[0].term[-160:] if th else 'none')
    # ---------------------------------------------------------------- G1 reconnect once, failed connection dropped
    n = cx.fn('C18.G1', 'hickory_resolver::name_server::NameServer::send_inner::{closure#0}')
    if n:
        SEND = r'await\(FirstAnswer::first_answer\(DnsHandle::send\(await\(NameServer::connected_mut_client\(\^arg1,\^arg3,\^arg4\)\)@Ready\.0@Ok\.0\.handle,\^arg2\)\)\)@Ready\.0'
        dec = cx.assigns(n, r'^subwithoverflow\(phi\(1\|.*\),1\)\.0$', place=None)
        cx.guard('C18.G1', dec, {'budget-left': r'^lt\(0,phi\(1\|.*\)\)$', 'reused-connection': r'^eq:ConnectionReuse\(ConnectionReuse::Reused,', 'connection-closed': rf'^NetError::is_connection_closed\({SEND}@Err\.0\)$'}, fn=n)
        cx.check('C18.G1', len(dec) >= 1, n.path, 'stores', 'budget-decrement-present', str(len(dec)))
        cm = cx.calls(n, r'NameServer<P>::connected_mut_client$|NameServer::connected_mut_client$')
        cx.check('C18.G1', len(cm) == 1, n.path, 'calls', 'single-acquire-site', str(len(cm)))
        if dec and cm:
            # the loop is re-entered only through the decrement
            err_edge = [t for bb in range(len(n.blocks)) for t, ps in n.edge_props(bb).items() if any(re.search(rf'^!ok\({SEND}\)$', shorten(p)) for p in ps)]
            cx.check('C18.G1', len(err_edge) == 1, n.path, 'edge', 'send-error-edge', str(len(err_edge)))
            cx.must_pass('C18.G1', n, cm, via_blocks={d.bb for d in dec}, start_blocks=err_edge, what='retry-only-after-spending-the-budget')
            okedge = [t for bb in range(len(n.blocks)) for t, ps in n.edge_props(bb).items() if any(re.search(rf'^ok\({SEND}\)$', shorten(p)) for p in ps)]
            reach_ = cx.reachable_from(n, okedge)
            cx.check('C18.G1', cm[0].bb not in reach_, n.path, 'edge', 'no-retry-after-an-answer', '')
            # every send error marks the connection Failed first
            failed = [s for s in cx.calls(n, r'ConnectionMeta::set_status$') if s.term.endswith(',Status::Failed)')]
            cx.check('C18.G1', len(failed) == 1, n.path, 'calls', 'set_status(Failed)-present', str(len(failed)))
            if failed and err_edge:
                exits = [Site(n, i, None, 'ret', 'return', label='return') for i, b in enumerate(n.blocks) if b['t'][0] == 'return' and not b['cleanup']] + cm
                exits = [e for e in exits if e.bb in cx.reachable_from(n, err_edge)]
                cx._number(exits)
                cx.must_pass('C18.G1', n, exits, via_blocks={failed[0].bb}, start_blocks=err_edge, what='every-send-error-marks-the-connection-Failed')

    # ---------------------------------------------------------------- T2 a closed stream fails its requests with a CONNECTION error
    # the pool moves on to the next server only for Io / NoConnections / Timeout / Busy, and a name server reconnects only when
    # NetError::is_connection_closed (an Io error of kind ConnectionReset|ConnectionAborted|NotConnected|BrokenPipe|UnexpectedEof): the
    # error DnsMultiplexer hands to every pending request when the byte stream ends must be of that class - the transport's own io
    # error, or Io(UnexpectedEof) for a clean close - or a server that closes the connection ends the whole lookup
    mx_ = cx.fn('C18.T2', r'<hickory_net::xfer::dns_multiplexer::DnsMultiplexer<S> as futures_core::stream::Stream>::poll_next')
    if mx_:
        ca = cx.calls(mx_, r'DnsMultiplexer<S>::stream_closed_close_all$|DnsMultiplexer::stream_closed_close_all$')
        cx.check('C18.T2', len(ca) >= 1, mx_.path, 'calls', 'close-all-present', str(len(ca)))
        IOERR = r'StreamExt::poll_next_unpin\(arg1\.stream,arg2\)@Ready\.0@Some\.0@Err\.0'
        EOF_ = r'into<NetError>\(Error::new\(ErrorKind::(UnexpectedEof|ConnectionReset|ConnectionAborted|NotConnected|BrokenPipe),[^()]*\)\)'
        for s_ in ca:
            ok = bool(re.fullmatch(rf'DnsMultiplexer::stream_closed_close_all\((?:arg1|var\(_\d+\)),(phi\(({IOERR}|{EOF_})(\|({IOERR}|{EOF_}))*\)|{IOERR}|{EOF_})\)', s_.term))
            cx.check('C18.T2', ok, mx_.path, s_.key(), 'pending-requests-fail-with-the-stream-error-or-Io(connection-closed-kind)', s_.term[:220], s_.loc,
                     sample={'fn': 'DnsMultiplexer::poll_next', 'error': s_.term[-120:], 'holds': ok})
    ic = cx.fn('C18.T2', 'hickory_net::error::NetError::is_connection_closed')
    if ic:
        tr = cx.true_returns(ic)
        cx.guard('C18.T2', tr, {'io-error': r'^is\(arg1,Io\)$', 'kind-is-a-closed-connection': r'^in\(Error::kind\(arg1@Io\.0\),ConnectionReset\|ConnectionAborted\|NotConnected\|BrokenPipe\|UnexpectedEof\)$'}, expect=1, fn=ic)

    # ---------------------------------------------------------------- N1 argument names agree with the parameters they are bound to (engine/argnames.py)
    # ---------------------------------------------------------------- L1 no slow await under a mutex of the name-server path
    # the deadline is checked between attempts, nothing bounds a wait for a mutex: an `.await` evaluated while a guard is held makes
    # every other lookup that needs the same server queue behind whatever is awaited (a connect that runs into connect_timeout).
    # The only await under a guard on today's tree is the short acquisition of the shared transport state under the per-server
    # connection list in connected_mut_client; anything else (engine/locks.py) is reported.
    import locks
    LOCK_OK = {('hickory_resolver::name_server::NameServer::connected_mut_client::{closure#0}', r'^PoolContext::transport_state\(\^arg3\)$')}
    surveyed = 0
    for p_, g_ in sorted(cx.prog.fns.items()):
        if g_.crate != 'hickory_resolver' or '::tests::' in p_ or not locks.guards(g_):
            continue
        surveyed += 1
        for gl, gty, bb, term in locks.awaits_under(g_):
            t_ = shorten(term)
            ok = any(p_ == fp and re.search(rx_, t_) for fp, rx_ in LOCK_OK)
            cx.check('C18.L1', ok, p_, 'await:' + t_[:60], 'no-await-under-a-mutex-guard(other than the transport-state lock)',
                     f'`{t_[:140]}` is awaited while a guard of type {shorten(gty)[:80]} is held', g_.loc(bb),
                     sample={'fn': shorten(p_ + '(')[:-1], 'awaited': t_[:100], 'guard': shorten(gty)[:80], 'holds': ok})
    cx.floor('C18.L1', surveyed, 8, 'resolver functions that hold a mutex guard (surveyed for awaits under the guard)')
    argnames.check(cx, 'C18.N1', r'hickory_resolver::(connection_provider|name_server|name_server_pool)', floor=50)
    argnames.check_fields(cx, 'C18.N1', r'hickory_resolver::(connection_provider|name_server|name_server_pool)', floor=16)


"""C01 — wire decoding is total: panic census and loop progress over the decode cone, recursion-freedom,
the four anchored mechanisms (pointer chase, label length, name length, RDLENGTH/all-consumed)."""
import re
from collections import Counter, defaultdict
import core, census, loops
from api import shorten, cone, Site

EXPLANATION = (
    "CENSUS/LOOP/REC/GUARD rules over the cone of every network-facing decode entry point of hickory-proto in the feature-full "
    "build (all BinDecodable::read and RecordDataDecodable::read_data impls incl. the DNSSEC and TSIG decoders the baseline never "
    "compiles, Message/MessageRequest/Queries readers, BinDecoder, Restrict, Edns::from(&Record)): (Z1) every panic-capable "
    "construct in the cone - MIR assert terminators (bounds, overflow, div/rem by zero, shifts) and calls of unwrap/expect/panic/"
    "Index::index/split_at/copy_from_slice/Vec::remove... - is enumerated; each is auto-discharged (constant shift/divisor, "
    "interval bound on the operands, constant index below constant length) or matches a reviewed exemption whose local fact is "
    "re-checked (e.g. indices 0..3 only inside the closure mapped over read_slice(4)); any other site, in particular a new "
    "unwrap/index/unchecked arithmetic on decoded data, is a violation; (L1) every cycle of every loop in the cone - in the "
    "value-sensitive product with parser-state variables - passes a call that consumes input or advances a finite iterator; "
    "(R1) the cone's call graph has no recursion; (G1) pointer chase: the decoder is rebound to clone(location) only under "
    "(ptr & 0x3FFF) < name_start, the bound is re-established from the new decoder's index() before the next check, and the loop "
    "head rejects index() >= the previous name start; (G2) labels reach extend_name only under len <= 63; (G3) names are bounded "
    "by extend_name's 255 test (C04.G1) and the final len test; (G4) RDLENGTH <= remaining, RData::read runs on split_off(rdlength) "
    "and returns Ok only if the sub-decoder is empty; section loops run over 0..count with a ?-propagating Record::read.")
NOT_DECIDED = ("Linear time beyond 'each loop iteration consumes input and there is no recursion'; absence of overflow where an "
               "exemption rests on a non-local size argument (each listed in evidence); the server front door's own panic census "
               "is limited to the decode calls it makes.")
ASSUMPTIONS = ["FULL feature configuration; panic semantics of the listed std APIs", "a usize length/index is at most isize::MAX (Rust allocation limit)"]

ROOT_RX = re.compile(
    r"as hickory_proto::serialize::binary::BinDecodable<'\w+>>::read$|RecordDataDecodable<'\w+>>::read_data$|"
    r"^hickory_proto::op::message::Message::(read_records|from_vec|from_bytes)$|^hickory_proto::op::message_request::MessageRequest::read|"
    r"^hickory_proto::op::message_request::Queries::read|^hickory_proto::rr::domain::name::read_inner$|"
    r"^hickory_proto::serialize::binary::(decoder::BinDecoder|restrict::Restrict)|^hickory_proto::rr::record_data::RData::read$|"
    r"^hickory_proto::dnssec::rdata::DNSSECRData::read$|Edns as core::convert::From<&|^hickory_proto::op::dns_response::DnsResponse::from_buffer$")
PROGRESS = re.compile(
    r"BinDecoder::(pop|read_u8|read_u16|read_u32|read_i32|read_slice|read_vec|read_character_data|split_off|read_vec_to_end)$|"
    r"BinDecodable<'\w+>>::read$|BinDecodable::read$|RecordDataDecodable<'\w+>>::read_data$|RecordDataDecodable::read_data$|"
    r"Iterator>::next$|Iterator::next$|range::.*::next$|RData::read$|Record::read|SvcParamValue::read$|DNSSECRData::read$")

FALLIBLE = re.compile(
    r"BinDecoder::(pop|read_u8|read_u16|read_u32|read_i32|read_slice|read_vec|read_character_data)$|"
    r"BinDecodable<'\w+>>::read$|BinDecodable::read$|RecordDataDecodable<'\w+>>::read_data$|RecordDataDecodable::read_data$|"
    r"RData::read$|Record::read|SvcParamValue::read$|DNSSECRData::read$")

P = 'hickory_proto::'
D = P + 'serialize::binary::decoder::BinDecoder::'
# (fn, kind, what) -> (count, reason, check-id or None)
EXEMPT = {
    ('<hickory_proto::dnssec::rdata::key::KeyTrust as core::convert::From<u16>>::from', 'panic', 'panicking::panic_fmt'): (1, 'default arm of a match on `flags & 0xC000` whose four other arms list every value of the masked expression', 'masked-match'),
    ('<hickory_proto::dnssec::rdata::key::KeyUsage as core::convert::From<u16>>::from', 'panic', 'panicking::panic_fmt'): (1, 'default arm of a match on `flags & 0x0300` whose four other arms list every value of the masked expression', 'masked-match'),
    ("<hickory_proto::op::edns::Edns as core::convert::From<&'a hickory_proto::rr::record::Record>>::from", 'panic', 'panicking::panic'): (1, 'assert!(record_type == OPT): every caller in the decode cone passes a record whose data is OPT or Update0(OPT)', 'edns-callers'),
    ("<hickory_proto::op::edns::Edns as core::convert::From<&'a hickory_proto::rr::record::Record>>::from", 'panic', 'panicking::panic_fmt'): (1, 'rdata/type mismatch arm, same caller fact', 'edns-callers'),
    (P + 'dnssec::rdata::DNSSECRData::read', 'panic', 'panicking::panic_fmt'): (1, 'default arm; the only caller (RData::read) dispatches here under RecordType::is_dnssec(), whose set equals the handled arms', 'dnssec-dispatch'),
    (P + 'rr::rdata::null::NULL::with', 'panic', 'panicking::panic'): (1, 'debug_assert!(!is_empty): NULL::read_data calls with() only under !decoder.is_empty()', 'null-with'),
    (P + 'op::message::Message::read_records', 'unwrap', 'Option::unwrap'): (1, 'Record::map(|d| match d {TSIG(t) => Some(t), _ => None}).unwrap() inside the `RData::TSIG(_)` arm', 'tsig-arm'),
    (P + 'rr::domain::name::Name::to_ascii', 'unwrap', 'Result::expect'): (1, 'fmt::Write into a String cannot fail (not on the decode path proper: Display helper reached through error construction)', None),
    (P + 'rr::domain::name::Name::write_labels::{closure@map#0}', 'unwrap', 'Result::unwrap'): (1, 'Label::from_raw_bytes on a label taken from an existing Name (1..=63 by C04.G1)', None),
    (D + 'clone', 'index', 'index'): (1, 'buffer[index_at..]: read_inner (the only decode caller) passes a pointer verified < name_start <= buffer.len()', 'clone-callers'),
    (D + 'index', 'assert:Overflow(Sub)', None): (1, 'buffer.len() - remaining.len(): remaining is always a suffix of buffer (only set from split_at / index ranges of buffer)', 'remaining-writers'),
    (D + 'read_slice', 'slice-op', 'slice::split_at'): (1, 'guarded by len <= remaining.len()', 'read_slice-guard'),
    (D + 'slice_from', 'index', 'index'): (1, 'buffer[index..self.index()] under index <= self.index() <= buffer.len()', 'slice_from-guard'),
    (D + 'split_off', 'assert:Overflow(Add)', None): (1, 'index()+length after split_at_checked(length) succeeded: length <= remaining.len() <= isize::MAX', 'split_off-guard'),
    (D + 'split_off', 'index', 'index'): (1, 'buffer[..index()+length] after split_at_checked(length) succeeded on remaining, so index()+length <= buffer.len()', 'split_off-guard'),
    (D + 'read_u16::{closure@map#0}', 'assert:BoundsCheck', None): (2, 'indices 0,1 of the slice returned by read_slice(2)', 'read_slice-const'),
    (D + 'read_i32::{closure@map#0}', 'assert:BoundsCheck', None): (4, 'indices 0..3 of the slice returned by read_slice(4)', 'read_slice-const'),
    (D + 'read_u32::{closure@map#0}', 'assert:BoundsCheck', None): (4, 'indices 0..3 of the slice returned by read_slice(4)', 'read_slice-const'),
    (D + 'read_i32::{closure@map#0}', 'panic', 'panicking::panic'): (1, 'assert!(s.len() == 4) on the slice returned by read_slice(4)', 'read_slice-const'),
    (D + 'read_u32::{closure@map#0}', 'panic', 'panicking::panic'): (1, 'assert!(s.len() == 4) on the slice returned by read_slice(4)', 'read_slice-const'),
    (P + 'rr::record_data::RData::read', 'assert:Overflow(Sub)', None): (1, 'decoder.index() - start_idx: the index only grows between the two reads of the same decoder', None),
    ("<hickory_proto::rr::rdata::tsig::TSIG as hickory_proto::rr::RecordDataDecodable<'r>>::read_data::{closure@map_err#0}", 'assert:Overflow(Sub)', None): (1, 'end_idx - decoder.index() in an error-message closure: the decoder was split_off to the RDATA, index <= end_idx', None),
    ("<hickory_proto::rr::rdata::tsig::TSIG as hickory_proto::rr::RecordDataDecodable<'r>>::read_data::{closure@map_err#1}", 'assert:Overflow(Sub)', None): (1, 'same as closure#2', None),
}


def run(cx):
    prog = cx.prog
    roots = [p for p in prog.fns if ROOT_RX.search(p) and '::tests::' not in p]
    cx.floor('C01.Z1', len(roots), 90, 'decode entry points (BinDecodable/RecordDataDecodable impls and readers)')
    cn, res = census.census(prog, roots)
    cx.notes.append(f'decode cone: {len(cn)} functions from {len(roots)} roots; {sum(len(v) for v in res.values())} panic-capable sites in {len(res)} functions')
    cx.floor('C01.Z1', len(cn), 250, 'functions in the decode cone')
    used = Counter()
    kinds = Counter()
    auto = 0
    for p, ss in sorted(res.items()):
        f = prog.fns[p]
        ordn = Counter()
        for bb, kind, what, macro in ss:
            kinds[kind] += 1
            o = ordn[(kind, what)]
            ordn[(kind, what)] += 1
            why = census.auto_discharge(prog, f, bb, kind)
            key = (p, kind, what)
            ok = False
            if why:
                auto += 1
                ok = True
            elif key in EXEMPT and used[key] < EXEMPT[key][0]:
                used[key] += 1
                ok = True
                why = 'exempt: ' + EXEMPT[key][1]
            cx.check('C01.Z1', ok, p, f'{kind}{":" + what if what else ""}#{o}', 'panic-site-discharged',
                     'panic-capable construct on attacker-reachable decode code with no discharge (auto rule or reviewed exemption)',
                     f.loc(bb), sample={'fn': shorten(p + '(')[:-1], 'site': kind, 'loc': f.loc(bb), 'discharge': why})
    cx.notes.append(f'sites by kind: {dict(kinds)}; auto-discharged {auto}; exemptions used {sum(used.values())}')
    for key, (n, reason, chk) in EXEMPT.items():
        if used[key] != n:
            cx.check('C01.Z1', used[key] <= n and key[0] in prog.fns, key[0], f'{key[1]}', 'exemption-table-current',
                     f'exemption expects {n} site(s), {used[key]} present (function {"present" if key[0] in prog.fns else "missing"})')
    exemption_checks(cx)

    # ---------------------------------------------------------------- L1 loop progress
    nloops = nfall = nunres = 0
    for p in sorted(cn):
        f = prog.fns[p]
        if not loops.has_loops(f):
            continue
        nloops += 1
        pb = {bi for bi, c, t in prog.calls_of(f) if any(PROGRESS.search(x) for x in f.callee_names(c))}
        # a fallible reader consumes input only when it SUCCEEDS: for those calls the progress point is the success edge of the
        # branch on their result, not the call itself (`if let Ok(..) = decoder.read_slice(n) {..} else { stay in this state }`
        # spins on a truncated input although every iteration "calls a reader")
        pbf = {bi for bi, c, t in prog.calls_of(f) if any(FALLIBLE.search(x) for x in f.callee_names(c))}
        pe, unresolved = loops.success_edges(cx, f, pbf)
        nfall += len(pbf)
        nunres += len(unresolved)
        bad = loops.cycles_without(cx, f, (pb - pbf) | unresolved, pe)
        cx.check('C01.L1', not bad, p, 'loops', 'every-cycle-consumes-input-or-advances-an-iterator',
                 'blocks on a progress-free cycle at lines ' + ','.join(str(f.span(b)[0]) for b in sorted(bad)[:8]), f'{f.file}:{f.line}',
                 sample={'fn': shorten(p + '(')[:-1], 'progress_blocks': len(pb), 'holds': not bad})
        # infinite iterator sources are not progress
        for bi, c, t in prog.calls_of(f):
            tt = shorten(f.term_call(t, 0))
            if re.search(r'iter::(repeat|repeat_with|from_fn|successors)\(|Iterator::cycle\(', tt):
                cx.check('C01.L1', False, p, 'iter', 'no-infinite-iterator-source', tt[:120], f.loc(bi))
    cx.floor('C01.L1', nloops, 12, 'loops in the decode cone')
    cx.floor('C01.L1', nfall - nunres, 20, 'fallible reader calls inside loops whose success edge was identified')
    cx.notes.append(f'loop progress: {nfall} fallible reader calls inside loops, success edge identified for {nfall - nunres}')

    # ---------------------------------------------------------------- R1 recursion-free
    # resolved (monomorphic) edges; a call through a type parameter inside a generic function F is
    # attributed, per resolved caller of F, to the impls for the caller's concrete type arguments
    res_edges = defaultdict(set)
    cha_out = defaultdict(set)
    dyn_calls = []
    calls_into = defaultdict(list)
    for p in cn:
        f = prog.fns[p]
        for bi, c, t in prog.calls_of(f):
            if c.get('virtual'):
                dyn_calls.append(f'{p} @ {f.loc(bi)}')
            for tg in prog.callee_targets(f, c):
                if tg not in cn:
                    continue
                if c.get('res'):
                    res_edges[p].add(tg)
                    calls_into[tg].append((p, c.get('gen', [])))
                else:
                    cha_out[p].add(tg)

    def norm(s):
        return re.sub(r"'\w+", "'_", s)
    generic_sources = sorted(cha_out)
    for F, tgs in cha_out.items():
        for caller, gens in calls_into.get(F, []):
            gs = set()
            for g in gens:
                stack_ = [norm(g)]
                while stack_:
                    x = stack_.pop()
                    gs.add(x)
                    m_ = re.match(r'^[^<]*<(.*)>$', x)
                    if m_:
                        stack_.extend(a.strip() for a in core.split_args(m_.group(1).replace('<', '(').replace('>', ')')) if a.strip())
            gs = {x.replace('(', '<').replace(')', '>') for x in gs}
            hit = {tg for tg in tgs if any(norm(tg).startswith('<' + g + ' as ') for g in gs)}
            res_edges[caller] |= (hit if hit else tgs)
        if not calls_into.get(F):
            res_edges[F] |= tgs       # a generic root: keep the over-approximation
    rec = []
    for a in list(res_edges):
        seen, st = set(), [a]
        found = False
        while st and not found:
            y = st.pop()
            for z in res_edges.get(y, ()):
                if z == a:
                    found = True
                    break
                if z not in seen:
                    seen.add(z)
                    st.append(z)
        if found:
            rec.append(a)
    cx.check('C01.R1', not rec, 'decode-cone', 'callgraph', 'no-recursion-in-decode-cone', '; '.join(sorted(set(rec))[:6]) or f'{sum(len(v) for v in res_edges.values())} call edges, acyclic')
    cx.check('C01.R1', not dyn_calls, 'decode-cone', 'callgraph', 'no-dyn-dispatch-in-decode-cone', '; '.join(dyn_calls[:5]))
    cx.notes.append('generic functions whose type-parameter calls were attributed per caller: ' + ', '.join(shorten(g + '(')[:-1] for g in generic_sources))

    # ---------------------------------------------------------------- G1/G2 read_inner
    f = cx.fn('C01.G1', P + 'rr::domain::name::read_inner')
    if f:
        cl = cx.calls(f, r'BinDecoder::clone$')
        cx.check('C01.G1', len(cl) == 1, f.path, 'calls', 'single-pointer-chase', str(len(cl)))
        c4 = cx.fn('C01.G1', P + 'rr::domain::name::read_inner::{closure@verify_unwrap#1}')
        vloc = None
        if c4:
            t = cx.true_returns(c4)
            ok = len(t) == 1 and bool(re.search(r'^lt\(cast<usize>\(arg2\),BinDecoder::index\(phi\(\^arg1\|BinDecoder::clone\(', t[0].term))
            cx.check('C01.G1', ok, c4.path, 'ret', 'pointer-strictly-before-name-start', '; '.join(s.term[:120] for s in t), t[0].loc if t else '')
            # which local of read_inner does the closure capture?
            site = cx.prog.closure_site(c4.path)
            if site:
                pf, ops = site
                for o in ops:
                    if o[0] in ('c', 'm'):
                        l = o[1] if isinstance(o[1], int) else o[1][0]
                        ds = pf.defs().get(l, [])
                        if len(ds) == 1 and ds[0][2] == 'assign' and ds[0][3][0] == 'ref' and isinstance(ds[0][3][1], int):
                            vloc = ds[0][3][1]
                            # (a by-value parameter of an expanded helper is a copy of the caller's variable)
                            for _ in range(3):
                                d2 = pf.defs().get(vloc, [])
                                if (len(d2) == 1 and d2[0][2] == 'assign' and d2[0][3][0] == 'use' and d2[0][3][1][0] in ('c', 'm') and isinstance(d2[0][3][1][1], int)):
                                    vloc = d2[0][3][1][1]
                                else:
                                    break
        c3 = cx.fn('C01.G1', P + 'rr::domain::name::read_inner::{closure@map#0}')
        if c3:
            r = cx.returns(c3, r'.')
            cx.check('C01.G1', len(r) == 1 and r[0].term == 'bitand(arg2,16383)', c3.path, 'ret', 'pointer-offset-is-low-14-bits', '; '.join(s.term for s in r))
        cx.check('C01.G1', vloc is not None, f.path, 'capture', 'bound-variable-identified', str(vloc))
        if vloc is not None and cl:
            # every path from the clone to the next construction of the verifying closure re-defines the bound from index()
            redefs = set()
            for d in f.defs().get(vloc, []):
                if d[2] == 'call' and any(n.endswith('BinDecoder::index') for n in f.callee_names(d[3][1])):
                    redefs.add(d[0])
                if d[2] == 'assign' and shorten(f.term_rvalue(d[3], 0)).startswith('BinDecoder::index('):
                    redefs.add(d[0])
            mk = [Site(f, bi, si, 'closure', 'closure#4') for bi, b in enumerate(f.blocks) for si, st in enumerate(b['s'])
                  if st[0] == '=' and st[2][0] == 'closure' and c4 is not None and core.strip_generics(st[2][1]) == c4.path]
            cx._number(mk)
            cx.check('C01.G1', len(mk) == 1 and len(redefs) >= 2, f.path, 'sites', 'bound-definitions', f'closure sites {len(mk)}, index() definitions of the bound {len(redefs)}')
            cx.must_pass('C01.G1', f, mk, via_blocks=redefs, start_blocks=[f.succs(cl[0].bb)[0]], what='bound-re-established-from-new-decoder-after-each-hop')
            cx.guard('C01.G1', cl, {'pointer-verified': r'^ok\(Result::map_err\(Restrict::verify_unwrap\(Restrict::map\(try\(BinDecoder::read_u16\('}, fn=f)
            for s in cl:
                cx.check('C01.G1', bool(re.search(r'^BinDecoder::clone\(.*,try\(Result::map_err\(Restrict::verify_unwrap\(Restrict::map\(', s.term)), f.path, s.key(), 'clone-at-the-verified-offset', s.term[:100], s.loc)
        ov = cx.returns(f, r'DecodeError::LabelOverlapsWithOther')
        cx.check('C01.G1', len(ov) == 1, f.path, 'ret', 'overlap-check-at-loop-head', str(len(ov)))
        # G2 label <= 63
        en = cx.calls(f, r'Name::extend_name$')
        cx.guard('C01.G2', en, {'label-verified': r'^ok\(Result::map_err\(Restrict::verify_unwrap\(try\(BinDecoder::read_character_data\('}, expect=1, fn=f)
        c0 = cx.fn('C01.G2', P + 'rr::domain::name::read_inner::{closure@verify_unwrap#0}')
        if c0:
            t = cx.true_returns(c0)
            cx.check('C01.G2', len(t) == 1 and t[0].term == 'le(slice::len(arg2),63)', c0.path, 'ret', 'label-length-le-63', '; '.join(s.term for s in t))
        # G3 final length test
        oks = cx.returns(f, r'^Result::Ok\(')
        cx.guard('C01.G3', oks, {'name-shorter-than-255': r'^lt\(Name::len\(arg2\),255\)$'}, expect=1, fn=f)
    rv = cx.fn('C01.G1', P + 'serialize::binary::restrict::Restrict::verify_unwrap')
    if rv:
        oks = cx.returns(rv, r'^Result::Ok\(')
        cx.guard('C01.G1', oks, {'predicate-held': r'^Fn(Once|Mut)?::call(_once|_mut)?\(arg2,\(arg1\.0\)\)$'}, expect=1, fn=rv)
    # ---------------------------------------------------------------- G4 record / rdata
    r = cx.fn('C01.G4', "<hickory_proto::rr::record::Record as hickory_proto::serialize::binary::BinDecodable<'r>>::read")
    if r:
        rd = cx.calls(r, r'RData::read$')
        cx.guard('C01.G4', rd, {'rdlength-verified-le-remaining': r'^ok\(Result::map_err\(Restrict::verify_unwrap\(try\(BinDecoder::read_u16\(arg1\)\)@Continue\.0,',
                                'rdlength-nonzero': r'^!eq\(0,'}, expect=1, fn=r)
        for s in rd:
            cx.check('C01.G4', bool(re.search(r'^RData::read\(try\(BinDecoder::split_off\(arg1,cast<usize>\(', s.term)), r.path, s.key(), 'rdata-decoder-is-split_off(rdlength)', s.term[:120], s.loc)
    for cl in cx.prog.find(r"Record as hickory_proto::serialize::binary::BinDecodable<'r>>::read::\{closure[^}]*\}$"):
        t = cx.true_returns(cl)
        if t and any(re.match(r'^(le|lt)\(', s.term) for s in t):
            cx.check('C01.G4', len(t) == 1 and bool(re.search(r'^le\(cast<usize>\(arg2\),BinDecoder::len\(\^+arg1\)\)$', t[0].term)), cl.path, 'ret', 'rdlength-le-remaining', t[0].term)
    rr = cx.fn('C01.G4', P + 'rr::record_data::RData::read')
    if rr:
        res_ = [s for s in cx.returns(rr, r'.') if not s.term.startswith('Result::Err(')]
        cx.guard('C01.G4', res_, {'all-rdata-consumed': r'^BinDecoder::is_empty\(arg1\)$'}, fn=rr)
        cx.check('C01.G4', len(res_) >= 1, rr.path, 'ret', 'result-return-present', str(len(res_)))
    mr = cx.fn('C01.G4', P + 'op::message::Message::read_records')
    if mr:
        rc = cx.calls(mr, r'Record as .*BinDecodable<.*>>::read$|Record::read$')
        cx.guard('C01.G4', rc, {'within-count': r'^ok\(range::next\(Range\(0,arg2\)\)\)$'}, expect=1, fn=mr)
        push = cx.calls(mr, r'Vec<T, A>::push$|Vec::push$')
        cx.guard('C01.G4', push, {'record-read-ok': r'^ok\(<Record as BinDecodable<.r>>::read\(arg1\)\)$'}, fn=mr)


def exemption_checks(cx):
    """re-check the local fact behind each exemption (fail closed)"""
    prog = cx.prog
    # read_slice(N).map(closure): indices used by the closure are < N
    for nm, n in (('read_u16', 2), ('read_i32', 4), ('read_u32', 4)):
        f = cx.fn('C01.Z1', D + nm)
        c = cx.fn('C01.Z1', D + nm + '::{closure@map#0}')
        if f and c:
            mp = cx.calls(f, r'Restrict<T>::map$|Restrict::map$')
            ok = len(mp) == 1 and bool(re.search(rf'^Restrict::map\(try\(BinDecoder::read_slice\(arg1,{n}\)\)@Continue\.0,closure:BinDecoder::{nm}::\{{closure@map#0\}}\)$', mp[0].term))
            idx = []
            for b in c.blocks:
                if b['t'][0] == 'assert' and b['t'][3] == 'BoundsCheck':
                    tt = shorten(c.term_operand(b['t'][4][1]))
                    if tt.isdigit():
                        idx.append(int(tt))
            nb = sum(1 for b in c.blocks if b['t'][0] == 'assert' and b['t'][3] == 'BoundsCheck')
            cx.check('C01.Z1', ok and len(idx) == nb and all(i is not None and i < n for i in idx), c.path, 'exempt', 'read_slice-const',
                     f'map over read_slice({n}); constant indices {idx}', f'{c.file}:{c.line}')
    f = cx.fn('C01.Z1', D + 'read_slice')
    if f:
        sp = cx.calls(f, r'slice::<impl \[T\]>::split_at$|slice::split_at$')
        cx.guard('C01.Z1', sp, {'len<=remaining': r'^le\(arg2,slice::len\(arg1\.remaining\)\)$'}, expect=1, fn=f)
    f = cx.fn('C01.Z1', D + 'slice_from')
    if f:
        ix = cx.calls(f, r'ops::index::Index::index$|slice::index::index$')
        cx.guard('C01.Z1', ix, {'index<=current': r'^le\(arg2,BinDecoder::index\(arg1\)\)$'}, expect=1, fn=f)
    f = cx.fn('C01.Z1', D + 'split_off')
    if f:
        ix = cx.calls(f, r'ops::index::Index::index$|slice::index::index$')
        cx.guard('C01.Z1', ix, {'split_at_checked-ok': r'^ok\(slice::split_at_checked\(arg1\.remaining,arg2\)\)$'}, expect=1, fn=f)
    # BinDecoder::clone callers in the cone
    callers = [(g, s) for g in prog.fns.values() if g.crate == 'hickory_proto' and '::tests::' not in g.path for s in cx.calls(g, r'decoder::BinDecoder::clone$')]
    cx.check('C01.Z1', {g.path for g, s in callers} == {P + 'rr::domain::name::read_inner'}, D + 'clone', 'exempt', 'clone-callers', ', '.join(sorted({g.path for g, s in callers})))
    # remaining is only ever a sub-slice of buffer
    from api import writers
    ws = {w[0].path for w in writers(prog, r'decoder::BinDecoder$', r'^remaining$')}
    allowed = {D + 'new', D + 'clone', D + 'pop', D + 'read_slice', D + 'split_off', D + 'read_vec_to_end'}
    cx.check('C01.Z1', ws <= allowed, D + 'index', 'exempt', 'remaining-writers', ', '.join(sorted(ws - allowed)) or 'as reviewed')
    # NULL::with only under !is_empty
    f = cx.fn('C01.Z1', "<hickory_proto::rr::rdata::null::NULL as hickory_proto::rr::RecordDataDecodable<'r>>::read_data")
    if f:
        w = cx.calls(f, r'NULL::with$')
        cx.guard('C01.Z1', w, {'non-empty': r'^!BinDecoder::is_empty\(arg1\)$'}, expect=1, fn=f)
    # Edns::from(&Record) callers in the decode cone
    for g in prog.fns.values():
        if g.crate != 'hickory_proto' or '::tests::' in g.path:
            continue
        for s in cx.calls(g, r"Edns as core::convert::From<&'a .*Record>>::from$|Into<.*>>::into$"):
            if 'into<Edns>' not in s.term and 'Edns as From' not in s.term and '<Edns as' not in s.term:
                continue
            if g.path == P + 'op::message::Message::read_records':
                cx.guard('C01.Z1', [s], {'record-data-is-OPT': r'^is\(.*\.data,OPT\)$|^is\(.*\.data@Update0\.0,OPT\)$|^in\(.*\.data,.*OPT.*\)$'}, fn=g)
    # TSIG arm
    f = cx.fn('C01.Z1', P + 'op::message::Message::read_records')
    if f:
        u = cx.calls(f, r'Option<T>::unwrap$|Option::unwrap$')
        cx.guard('C01.Z1', u, {'tsig-arm': r'^is\(.*\.data,TSIG\)$'}, expect=1, fn=f)
    # DNSSECRData::read dispatch: caller guard
    f = cx.fn('C01.Z1', P + 'rr::record_data::RData::read')
    if f:
        d = cx.calls(f, r'DNSSECRData::read$')
        cx.guard('C01.Z1', d, {'is_dnssec': r'^RecordType::is_dnssec\(arg2\)$'}, expect=1, fn=f)
    isd = cx.fn('C01.Z1', P + 'rr::record_type::RecordType::is_dnssec')
    dr = cx.fn('C01.Z1', P + 'dnssec::rdata::DNSSECRData::read')
    if isd and dr:
        def variants(fn, op_term):
            out = set()
            for bb in range(len(fn.blocks)):
                for s, ps in fn.edge_props(bb).items():
                    for p_ in ps:
                        m = re.match(r'^is\(' + op_term + r',(\w+)\)$', shorten(p_))
                        if m:
                            out.add(m.group(1))
            return out
        a = variants(isd, 'arg1')
        b = variants(dr, 'arg2')
        # variants still possible at the call site (earlier arms of RData::read took the others)
        possible = None
        for s in (d if f else []):
            for pp in (core.path_props(f, s.bb) or []):
                m = re.match(r'^in\(arg2,(.*)\)$', shorten(pp))
                if m:
                    possible = set(m.group(1).split('|'))
        need = a & possible if possible is not None else a
        cx.check('C01.Z1', need <= b and len(b) >= 8, dr.path, 'exempt', 'dnssec-dispatch', f'is_dnssec and reachable here: {sorted(need)} vs handled arms: {sorted(b)}')
    # masked matches: every switch value is a sub-mask of the AND constant and all 4 combinations are listed
    for p_, mask in (('<hickory_proto::dnssec::rdata::key::KeyTrust as core::convert::From<u16>>::from', 0xC000), ('<hickory_proto::dnssec::rdata::key::KeyUsage as core::convert::From<u16>>::from', 0x0300)):
        f = cx.fn('C01.Z1', p_)
        if f:
            vals = set()
            okm = False
            for b in f.blocks:
                t = b['t']
                if t[0] == 'switch':
                    term = shorten(f.term_operand(t[1]))
                    if term == f'bitand(arg1,{mask})':
                        okm = True
                        vals = {v for v, _ in t[2]}
            lo = mask & -mask
            want = {0, lo, lo << 1, mask}
            cx.check('C01.Z1', okm and vals == want, p_, 'exempt', 'masked-match', f'switch on bitand(arg1,{mask}) lists {sorted(vals)}')

"""C08 — NSEC denial of existence: guard sets on the Secure yields of verify_nsec (RFC 4035 5.4,
RFC 6840 4, RFC 4592), the cover test, no_closer_matches, authenticated inputs."""
import re
import argnames
import helpers
import C06
from api import shorten
import C09

EXPLANATION = (
    "GUARD rules over hickory-net's verify_nsec (feature-full build): each of the 5 Secure yields carries its RFC premise set "
    "(direct match NODATA: owner == qname, qtype and CNAME bits clear, NOERROR, no answers, and not an ancestor-delegation NSEC "
    "unless qtype is DS; NXDOMAIN: covering NSEC for qname and for the wildcard at the closest encloser, NXDOMAIN, no answers; "
    "wildcard expansion: wildcard name covered, NOERROR, answers present, no closer matches, qname covered; wildcard NODATA: NSEC "
    "at the wildcard with both bits clear and no closer matches); a fifth Secure origin is a violation; (G2) the cover closure "
    "returns true only under owner < name and (name < next or next == SOA owner) in Name's canonical order; (G3) "
    "no_closer_matches returns true only under its four containment tests and with every intermediate wildcard covered; (S1) "
    "only NSECs whose owner has a Secure record reach verify_nsec; SOA name must enclose qname; (P1) wildcard RRSIG answers "
    "without NSEC/NSEC3 are Bogus.  After F28-F35: the fifth Secure origin is the empty non-terminal NODATA (covering NSEC whose next name is "
    "strictly below the name); a wildcard expansion needs qname covered and nsec_closest_encloser(qname, covering NSEC) == parent of the "
    "wildcard named by a Secure RRSIG (replacing 'wildcard name covered + no closer matches' for that arm); the cover closure is exactly "
    "owner < name && (name < next || next == SOA owner || (next <= owner && next encloses name)) && !(name below owner && (NS without SOA || "
    "DNAME)); S1 is now 'the NSEC record itself is Secure'; (A1) NSEC/NSEC3 RRsets whose RRSIG labels differ from the owner's label count "
    "never reach verification; (B1) the type bit map decoder inserts every set bit as (window << 8) | index; (S2) server side: nsec_records "
    "attaches closest_nsec(qname) and closest_nsec(closest encloser), the closest encloser found by walking up while the ancestor is in the "
    "zone, is not the apex and does not exist.")
NOT_DECIDED = ("Logical entailment over all zones and NSEC subsets, and completeness against the server's proof selection - "
               "relations over runtime values; the guard sets are the RFCs' stated premises.")
ASSUMPTIONS = ["FULL feature configuration (dnssec-ring)", "Name's Ord is RFC 4034 6.1 canonical order (C04)"]

N = 'hickory_net::dnssec::'
DIRECT = r"<Iter<'a;T> as Iterator>::find\(slice::iter\(arg5\),closure:dnssec::verify_nsec::\{closure@find#0\}\)"
COVQ = r'dnssec::find_nsec_covering_record\(arg2,arg1\.name,arg5\)'
WILD = r'Name::prepend_label\(.*,lit:"\*"\)'


def run(cx):
    f = cx.fn('C08.G1', N + 'verify_nsec')
    if f:
        ys = cx.calls(f, r'dnssec::verify_nsec::\{closure@val#0\}$')
        sec = [s for s in ys if 'Proof::Secure' in s.term]
        cx.check('C08.G1', len(sec) == 5, f.path, 'yields', 'secure-origin-count', f'{len(sec)} Secure yields, 5 reviewed: ' + '; '.join(s.loc for s in sec))
        common = {'rcode-supported': r'^eq:ResponseCode\(ResponseCode::(NoError|NXDomain),arg3\)$'}
        cx.guard('C08.G1', sec, common, fn=f)
        cx.guard('C08.G1', sec, {'soa-encloses-qname': r'^Name::zone_of\(arg2@Some\.0,arg1\.name\)$|^!ok\(arg2\)$'}, fn=f)
        direct = [s for s in sec if re.search(r'lit:"direct match"', s.term)]
        cx.guard('C08.G1', direct, {
            'nsec-owner-equals-qname': rf'^ok\({DIRECT}\)$',
            'qtype-bit-clear': rf'^!RecordTypeSet::contains\(NSEC::type_set\({DIRECT}@Some\.0\.1\),arg1\.query_type\)$',
            'cname-bit-clear': rf'^!RecordTypeSet::contains\(NSEC::type_set\({DIRECT}@Some\.0\.1\),RecordType::CNAME\)$',
            'rcode-NoError': r'^eq:ResponseCode\(ResponseCode::NoError,arg3\)$',
            'no-answer': r'^slice::is_empty\(arg4\)$',
            # RFC 6840 4.1: an ancestor-delegation NSEC (NS set, SOA clear) proves nothing but DS absence
            'not-ancestor-delegation(RFC6840-4.1)':
                rf'^!RecordTypeSet::contains\(NSEC::type_set\({DIRECT}@Some\.0\.1\),RecordType::NS\)$|'
                rf'^RecordTypeSet::contains\(NSEC::type_set\({DIRECT}@Some\.0\.1\),RecordType::SOA\)$|'
                r'^eq:RecordType\(RecordType::DS,arg1\.query_type\)$',
        }, expect=1, fn=f)
        nx = [s for s in sec if 'no direct match, no wildcard' in s.term]
        cx.guard('C08.G1', nx, {
            'no-direct-match': rf'^!ok\({DIRECT}\)$',
            'qname-covered': rf'^ok\({COVQ}\)$',
            'wildcard-covered': rf'^ok\(dnssec::find_nsec_covering_record\(arg2,{WILD}@Ok\.0,arg5\)\)$',
            'rcode-NXDomain': r'^eq:ResponseCode\(ResponseCode::NXDomain,arg3\)$',
            'no-answer': r'^slice::is_empty\(arg4\)$'}, expect=1, fn=f)
        # empty non-terminal NODATA (RFC 4035 3.1.3.1 / RFC 4592 2.2.2): no NSEC at the name, the covering NSEC's next name is
        # strictly below the name
        ent = [s for s in sec if 'empty non-terminal' in s.term]
        NEXT = rf'NSEC::next_domain_name\({COVQ}@Some\.0\.1\)'
        cx.guard('C08.G1', ent, {
            'no-direct-match': rf'^!ok\({DIRECT}\)$',
            'qname-covered': rf'^ok\({COVQ}\)$',
            'next-name-below-qname': rf'^Name::zone_of\(arg1\.name,{NEXT}\)$',
            'next-name-is-not-qname': rf'^!eq:Name\(arg1\.name,{NEXT}\)$|^!eq:Name\({NEXT},arg1\.name\)$',
            'rcode-NoError': r'^eq:ResponseCode\(ResponseCode::NoError,arg3\)$',
            'no-answer': r'^slice::is_empty\(arg4\)$'}, expect=1, fn=f)
        # wildcard expansion (RFC 4035 5.3.4, RFC 4592 3.3.1): qname covered, and the closest encloser the covering NSEC shows is
        # the parent of the wildcard named by a Secure RRSIG's labels field
        wx = [s for s in sec if 'expanded wildcard' in s.term]
        cx.guard('C08.G1', wx, {
            'no-direct-match': rf'^!ok\({DIRECT}\)$',
            'qname-covered': rf'^ok\({COVQ}\)$',
            'rcode-NoError': r'^eq:ResponseCode\(ResponseCode::NoError,arg3\)$',
            'have-answer': r'^!slice::is_empty\(arg4\)$',
            'closest-encloser-is-the-wildcard-parent': r'^Option::is_some_and\(phi\(Option::map\(Iterator::min_by_key\(Iterator::filter_map\(slice::iter\(arg4\),closure:dnssec::verify_nsec::\{closure@filter_map#0\}\),.*,closure:dnssec::verify_nsec::\{closure@is_some_and#0\}\)$'},
            expect=1, fn=f)
        ce = cx.fn('C08.G1', N + 'verify_nsec::{closure@is_some_and#0}')
        if ce:
            r_ = cx.returns(ce, r'.')
            COVC = r'dnssec::find_nsec_covering_record\(\^arg2,\^arg1\.name,\^arg5\)'
            cx.check('C08.G1', len(r_) == 1 and bool(re.fullmatch(rf'eq:Name\(dnssec::nsec_closest_encloser\(\^arg1\.name,{COVC}@Some\.0\.0,{COVC}@Some\.0\.1\),Name::base_name\(arg2\)\)|eq:Name\(Name::base_name\(arg2\),dnssec::nsec_closest_encloser\(\^arg1\.name,{COVC}@Some\.0\.0,{COVC}@Some\.0\.1\)\)', r_[0].term)),
                     ce.path, 'ret', 'closest-encloser(qname, covering NSEC)==parent(expanded wildcard)', '; '.join(x.term[:200] for x in r_))
        wn = [s for s in sec if s not in direct + nx + wx + ent]
        cx.guard('C08.G1', wn, {
            'no-direct-match': rf'^!ok\({DIRECT}\)$',
            'qname-covered': rf'^ok\({COVQ}\)$',
            'wildcard-not-covered-but-matched': r"^<Iter<'a;T> as Iterator>::any\(slice::iter\(arg5\),closure:dnssec::verify_nsec::\{closure@any#0\}\)$",
            'rcode-NoError': r'^eq:ResponseCode\(ResponseCode::NoError,arg3\)$',
            'no-answer': r'^slice::is_empty\(arg4\)$'}, expect=1, fn=f)
    c8 = cx.fn('C08.G1', N + 'verify_nsec::{closure@any#0}')
    if c8:
        t = cx.true_returns(c8)
        cx.guard('C08.G1', t, {
            'owner-equals-wildcard-name': rf'^eq:Name\({WILD}@Ok\.0,arg2\.0\)$|^eq:Name\(arg2\.0,{WILD}@Ok\.0\)$',
            'qtype-bit-clear': r'^!RecordTypeSet::contains\(NSEC::type_set\(arg2\.1\),\^arg1\.query_type\)$',
            'cname-bit-clear': r'^!RecordTypeSet::contains\(NSEC::type_set\(arg2\.1\),RecordType::CNAME\)$',
            'no-closer-matches': r'^dnssec::no_closer_matches\(\^arg1\.name,\^arg2,\^arg5,'}, fn=c8)
        cx.check('C08.G1', len(t) >= 1, c8.path, 'ret', 'true-return-present', str(len(t)))
    c1 = cx.fn('C08.G1', N + 'verify_nsec::{closure@find#0}')
    if c1:
        t = cx.true_returns(c1)
        cx.check('C08.G1', len(t) == 1 and bool(re.search(r'^eq:Name\(\^arg1\.name,arg2\.0\)$', t[0].term)), c1.path, 'ret',
                 'direct-match-is-name-equality', '; '.join(s.term for s in t))
    # wildcard base name selection from answers: Secure RRSIG, fewer labels than owner and qname, encloses qname
    c2 = cx.fn('C08.G1', N + 'verify_nsec::{closure@filter_map#0}')
    if c2:
        some = cx.returns(c2, r'^Option::Some\(')
        cx.guard('C08.G1', some, {
            'rrsig-secure': r'^eq:Proof\(Proof::Secure,arg2\.proof\)$',
            'labels-lt-owner-labels': r'^lt\(SIG::input\(.*\)\.num_labels,Name::num_labels\(arg2\.name\)\)$',
            'labels-lt-qname-labels': r'^lt\(SIG::input\(.*\)\.num_labels,Name::num_labels\(\^arg1\.name\)\)$',
            'encloses-qname': r'^Name::zone_of\(Name::trim_to\(arg2\.name,.*\),\^arg1\.name\)$'}, expect=1, fn=c2)

    # ------------------------------------------------------------ G4 closest-encloser search
    if f:
        CAND = r"phi\(<IntoIter<T;N> as Iterator>::next\(\[.*\]\)@Some\.0\|Name::base_name\(rec\(_\d+\)\)\)"
        BEST = r"phi\(Name::base_name\(arg1\.name\)\|arg2@Some\.0\|" + CAND + r"\)"
        upd = [s for s in cx.assigns(f, '^' + CAND + '$', place=None) if cx.has_guard(s, r'^Name::zone_of\(' + CAND + r',arg1\.name\)$')]
        cx.check('C08.G4', len(upd) >= 1, f.path, 'stores', 'closest-encloser-update-present', str(len(upd)))
        cx.guard('C08.G4', upd[:1], {'candidate-encloses-qname': r'^Name::zone_of\(' + CAND + r',arg1\.name\)$',
                                     'longer-than-the-best-so-far': r'^lt\(Name::num_labels\(' + BEST + r'\),Name::num_labels\(' + CAND + r'\)\)$'}, fn=f)
        # the bound is the RUNNING best: its label count is read again after every update (a snapshot taken before the search
        # would let the second seed overwrite a longer encloser found from the first)
        reads = [s for s in cx.calls(f, r'Name::num_labels$') if re.fullmatch(r'Name::num_labels\(' + BEST + r'\)', s.term)]
        cx.check('C08.G4', len(reads) >= 1, f.path, 'calls', 'best-so-far-label-count-read', str(len(reads)))
        for u in upd[:1]:
            after = cx.reachable_from(f, [u.bb])
            cx.check('C08.G4', any(r.bb in after for r in reads), f.path, u.key(), 'bound-re-read-after-each-update',
                     'the label count of the closest encloser found so far is not read again after it is updated', u.loc)
    # ------------------------------------------------------------ G2 cover test
    c = cx.fn('C08.G2', N + 'find_nsec_covering_record::{closure@find#0}')
    if c:
        t = cx.true_returns(c)
        cx.check('C08.G2', len(t) >= 2, c.path, 'ret', 'true-return-count', f'{len(t)} true returns')
        # covers(name) <=> owner < name && (name < next || next == apex) && the record is not silent about names below its owner:
        # RFC 6840 4.1 - an NSEC from the parent side of a zone cut (NS set, SOA clear) or at a DNAME owner must not be used to deny
        # names below its owner.  Exactly that (the converse clause of the property - the server's own proofs must be accepted):
        # nothing else rejects a record.
        TS = r'RecordTypeSet::contains\(NSEC::type_set\(arg2\.1\),%s\)'
        NS_, SOA_, DN_ = TS % 'RecordType::NS', TS % 'RecordType::SOA', TS % r'(const:find_nsec_covering_record::DNAME|RecordType::Unknown\(39\)|const:dnssec::DNAME)'
        BELOW = r'Name::zone_of\(arg2\.0,\^arg2\)'
        APEX = r'eq:Option\(Option::Some\(NSEC::next_domain_name\(arg2\.1\)\),\^arg1\)'
        cx.bool_cnf('C08.G2', c, [[r'lt:Name\(arg2\.0,\^arg2\)'],
                                 # name < next, or the record is the last of the chain (next == apex: named by the SOA of the response, or
                                 # recognisable by next <= owner) and the name belongs to that zone
                                 [r'lt:Name\(\^arg2,NSEC::next_domain_name\(arg2\.1\)\)', APEX, r'le:Name\(NSEC::next_domain_name\(arg2\.1\),arg2\.0\)'],
                                 [r'lt:Name\(\^arg2,NSEC::next_domain_name\(arg2\.1\)\)', APEX, r'Name::zone_of\(NSEC::next_domain_name\(arg2\.1\),\^arg2\)'],
                                 ['!' + BELOW, '!' + DN_],
                                 ['!' + BELOW, '!' + NS_, SOA_]],
                    'covers=owner<name&&(name<next||last-of-chain)&&!(below-owner&&(delegation||DNAME))')
    # the closest encloser an NSEC shows: the longer of the ancestors qname shares with the owner and with the next name
    ne = cx.fn('C08.G2', N + 'nsec_closest_encloser')
    if ne:
        r_ = cx.returns(ne, r'.')
        SH = r'dnssec::nsec_closest_encloser::\{closure@val#0\}\(closure:dnssec::nsec_closest_encloser::\{closure@val#0\},\(%s\)\)'
        OW, NX = SH % 'arg2', SH % r'NSEC::next_domain_name\(arg3\)'
        LEN = r'ExactSizeIterator::len\(Name::iter\(%s\)\)'
        ok_o = [x for x in r_ if re.fullmatch(OW, x.term) and cx.has_guard(x, rf'^le\({LEN % NX},{LEN % OW}\)$')]
        ok_n = [x for x in r_ if re.fullmatch(NX, x.term) and cx.has_guard(x, rf'^lt\({LEN % OW},{LEN % NX}\)$')]
        cx.check('C08.G2', len(r_) == 2 and len(ok_o) == 1 and len(ok_n) == 1, ne.path, 'ret', 'closest-encloser=longer-of(shared(owner),shared(next))', '; '.join(x.term[:120] for x in r_))
    sh = cx.fn('C08.G2', N + 'nsec_closest_encloser::{closure@val#0}')
    if sh:
        r_ = cx.returns(sh, r'.')
        ANC = r'phi\((?:<Name as Clone>::clone\(arg2\)|arg2)\|Name::base_name\(rec\(_\d+\)\)\)'
        cx.check('C08.G2', len(r_) == 1 and bool(re.fullmatch(ANC, r_[0].term)), sh.path, 'ret', 'shared-ancestor=first-ancestor-of-the-other-name', '; '.join(x.term[:160] for x in r_))
        cx.guard('C08.G2', r_, {'it-encloses-qname': rf'^Name::zone_of\({ANC},\^arg1\)$'}, expect=1, fn=sh)

    # ------------------------------------------------------------ G3 no_closer_matches
    g = cx.fn('C08.G3', N + 'no_closer_matches')
    if g:
        t = cx.true_returns(g)
        cx.guard('C08.G3', t, {
            'wildcard-base-known': r'^ok\(arg4\)$',
            'soa-encloses-wildcard-base': r'^Name::zone_of\(arg2@Some\.0,arg4@Some\.0\)$|^!ok\(arg2\)$',
            'soa-encloses-qname': r'^Name::zone_of\(arg2@Some\.0,arg1\)$|^!ok\(arg2\)$',
            'wildcard-labels-le-qname-labels': r'^le\(Name::num_labels\(arg4@Some\.0\),Name::num_labels\(arg1\)\)$',
            'wildcard-parent-encloses-qname': r'^Name::zone_of\(Name::base_name\(arg4@Some\.0\),arg1\)$',
            'walk-finished': r'^le\(Name::num_labels\(.*\),Name::num_labels\(arg4@Some\.0\)\)$'}, expect=1, fn=g)
        body = [s for bb in range(len(g.blocks)) for s, ps in g.edge_props(bb).items()
                if any(re.search(r'^lt\(Name::num_labels\(arg4@Some\.0\),Name::num_labels\(', shorten(p)) for p in ps)]
        cx.check('C08.G3', len(body) == 1, g.path, 'loop', 'walk-loop-shape', f'{len(body)} loop bodies')
        cx.must_pass('C08.G3', g, t, via_edge=r'^ok\(dnssec::find_nsec_covering_record\(arg2,Name::prepend_label\(.*,lit:"\*"\)@Ok\.0,arg3\)\)$',
                     start_blocks=body, what='every-intermediate-wildcard-covered')

    # ------------------------------------------------------------ S1 authenticated inputs, P1 wildcard answers
    C09.auth_filter(cx, 'C08.S1', 'NSEC')
    v = cx.fn('C08.P1', N + 'DnssecDnsHandle::verify_response::{closure#0}')
    if v:
        vn = cx.calls(v, r'dnssec::verify_nsec$')
        cx.check('C08.S1', len(vn) == 1 and bool(re.search(r'verify_nsec\(\^arg3,dnssec::find_soa_name\(.*\),.*\.response_code,.*\.answers,Vec::deref\(|verify_nsec\(\^arg3,dnssec::find_soa_name\(', vn[0].term if vn else '')),
                 v.path, 'call', 'verify_nsec-arguments', vn[0].term[:200] if vn else 'no call')
        # Ok(message) with answers and neither NSEC nor NSEC3 requires "no wildcard RRSIG in answers"
        oks = cx.returns(v, r'^Result::Ok\(')
        plain = [s for s in oks if cx.has_guard(s, r'^!Vec::is_empty\(.*\.answers\)$')]
        cx.guard('C08.P1', plain, {'no-wildcard-rrsig-in-answers':
                 r'^!Iterator::any\(HashMap::iter\(await\(DnssecDnsHandle::verify_rrsets\(.*\.answers\).*\)\)@Ready\.0\),closure:DnssecDnsHandle::verify_response::\{closure#0\}::\{closure@any#0\}\)$'},
                 expect=1, fn=v)
    w = cx.fn('C08.P1', N + 'DnssecDnsHandle::verify_response::{closure#0}::{closure@any#0}')
    if w:
        t = cx.true_returns(w)
        cx.guard('C08.P1', t, {'secure-outcome': r'^is\(arg2\.1\.outcome,Secure\)$',
                               'rrsig-labels-lt-owner-labels': r'^lt\(SIG::input\(arg2\.1\.outcome@Secure\.rrsig\)\.num_labels,Name::num_labels\(arg2\.1\.outcome@Secure\.owner\)\)$'},
                 expect=1, fn=w)

    # ---------------------------------------------------------------- A1 only authenticated, non-synthesised NSEC/NSEC3 enter the proof
    C06.nsec_not_wildcard_expanded(cx, 'C08.A1')

    # ---------------------------------------------------------------- B1 the type bit map decoder
    C09.type_bitmap(cx, 'C08.B1')

    # ---------------------------------------------------------------- S2 the proof the server selects (converse clause)
    # "for every signed zone and every query, the proof the authoritative server attaches is accepted by the validator": for a name
    # error the in-memory store attaches (1) the NSEC that matches or covers the query name and (2) the NSEC that matches or covers
    # the CLOSEST ENCLOSER - the nearest ancestor that exists, found by walking up while the ancestor is inside the zone, is not the
    # apex and does not exist (F38: it used to be the parent; C08e: a direct map lookup of that name misses empty non-terminals).
    # Both come from closest_nsec (the chain walk), never from a direct lookup.
    nr = cx.fn('C08.S2', r'<hickory_server::store::in_memory::InMemoryZoneHandler<P> as hickory_server::zone_handler::ZoneHandler>::nsec_records::{closure@pin#0}')
    if nr:
        INNER = r'await\(RwLock::read\(\^arg1\.inner\)\)@Ready\.0'
        ANCS = r'phi\(LowerName::base_name\(\^arg2\)\|LowerName::base_name\(rec\(_\d+\)\)\)'
        ORIGIN = r'<InMemoryZoneHandler<P> as ZoneHandler>::origin\(\^arg1\)'
        cn = cx.calls(nr, r'InnerInMemory::closest_nsec$')
        cx.check('C08.S2', len(cn) == 2, nr.path, 'calls', 'two-chain-walks(query name, closest encloser)', str(len(cn)))
        q = [s_ for s_ in cn if re.fullmatch(rf'InnerInMemory::closest_nsec\({INNER},\^arg2\)', s_.term)]
        w = [s_ for s_ in cn if re.fullmatch(rf'InnerInMemory::closest_nsec\({INNER},phi\({ANCS}\|{ORIGIN}\)\)', s_.term)]
        cx.check('C08.S2', len(q) == 1 and len(w) == 1, nr.path, 'calls', 'proofs=closest_nsec(qname),closest_nsec(walked-up ancestor or apex)', '; '.join(s_.term[-120:] for s_ in cn))
        # the walk: base_name is taken again only while the ancestor is in the zone, is not the apex and does not exist
        ex = [s_ for s_ in cx.calls(nr, r'InnerInMemory::name_exists$') if re.fullmatch(rf'InnerInMemory::name_exists\({INNER},{ANCS}\)', s_.term)]
        cx.guard('C08.S2', ex, {'ancestor-inside-the-zone': rf'^LowerName::zone_of\({ORIGIN},{ANCS}\)$', 'ancestor-is-not-the-apex': rf'^!eq:LowerName\({ORIGIN},{ANCS}\)$'}, expect=1, fn=nr)
        step = [s_ for s_ in cx.calls(nr, r'LowerName::base_name$') if re.fullmatch(rf'LowerName::base_name\({ANCS}\)', s_.term)]
        cx.guard('C08.S2', step, {'ancestor-does-not-exist': rf'^!InnerInMemory::name_exists\({INNER},{ANCS}\)$'}, expect=1, fn=nr)
        if w and ex:
            stay = [bi for bi in range(len(nr.blocks)) for t_, ps in (nr.edge_props(bi) or {}).items()
                    if any(re.fullmatch(rf'InnerInMemory::name_exists\({INNER},{ANCS}\)', shorten(p_)) for p_ in ps)]
            cx.check('C08.S2', len(stay) >= 1, nr.path, 'loop', 'walk-ends-at-the-first-ancestor-that-exists', str(len(stay)))
        out = cx.calls(nr, r'LookupRecords::many$')
        cx.check('C08.S2', len(out) == 1, nr.path, 'calls', 'single-proof-set', str(len(out)))

    # ---------------------------------------------------------------- H helper semantics the guards above rely on (rules/helpers.py)
    helpers.check(cx, 'C08.H', ['Name::zone_of', 'Name::base_name', 'Name::trim_to', 'Name::is_wildcard', 'RecordTypeSet::contains', 'NSEC::type_set'])

    # ---------------------------------------------------------------- N1 argument names agree with the parameters they are bound to (engine/argnames.py)
    argnames.check(cx, 'C08.N1', r'hickory_net::dnssec', floor=80)
    argnames.check_fields(cx, 'C08.N1', r'hickory_net::dnssec', floor=45)


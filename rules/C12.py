"""C12 — dynamic update semantics: authorise -> prerequisites -> prescan -> apply ordering; reject-code tables = RFC 2136
pseudocode; apex SOA/NS protection; CNAME exclusivity before insert; serial bump iff updated; per-record effects unconditional."""
import re
import argnames
import helpers
from api import shorten

EXPLANATION = (
    "PATH/GUARD/TABLE rules over SqliteZoneHandler (sqlite + dnssec-ring build; never compiled by the baseline) and RecordSet: "
    "(P1) update() reaches update_records(.., true) only through the Ok edges of authorize_update, verify_prerequisites and "
    "pre_scan, in that order, and calls nothing else on the handler; (T1) for verify_prerequisites and pre_scan the map "
    "guard-set -> rcode of every return equals the RFC 2136 3.2.5 / 3.4.1.3 pseudocode (ttl != 0 FORMERR, outside zone NOTZONE, "
    "ANY/ANY unused name NXDOMAIN, ANY/type missing NXRRSET, NONE/ANY used name YXDOMAIN, NONE/type present YXRRSET, value "
    "mismatch NXRRSET, non-empty RDATA / other class / meta type FORMERR); the RDATA forms pre_scan accepts for class ANY are "
    "exactly those update_records can apply (no FORMERR after the journal write); (G1) update_records: class-ANY delete skips "
    "apex SOA/NS, the ANY/ANY retain predicate keeps apex SOA/NS, class NONE delegates to RecordSet::remove whose SOA and "
    "last-NS rules are guards, upsert inserts only after the CNAME-exclusivity scan returned false, SOA replacement in "
    "RecordSet::insert is decided by SerialNumber's (RFC 1982) ordering; every per-record zone mutation is unconditional on "
    "the accumulated `updated` flag; (G2) the serial bump / re-signing is reached iff updated && auto_signing_and_increment; (S1) InnerInMemory::upsert - the only changed-signal update_records has "
    "for added RRs - returns true exactly when the modified RRset was stored back into the zone map.")
NOT_DECIDED = "RRset contents after arbitrary histories; 'exactly one SOA' as a global invariant (only its local guards)."
ASSUMPTIONS = ["FULL feature configuration (sqlite + dnssec-ring)", "BTreeMap API semantics"]

S = 'hickory_server::store::sqlite::SqliteZoneHandler::'
RR = r"<Iter<'a;T> as Iterator>::next\(\^arg2\)@Some\.0"
ZCLASS = rf'eq:DNSClass\({RR}\.dns_class,InMemoryZoneHandler::class\(\^arg1\.in_memory\)\)'
INZONE = rf'^LowerName::zone_of\(<SqliteZoneHandler<P> as ZoneHandler>::origin\(\^arg1\),into<LowerName>\({RR}\.name\)\)$'
TTL0 = rf'^eq\(0,{RR}\.ttl\)$'


def within(term_rx, names):
    """the term is one of the named variants: is(T,X) with X in names, or in(T,X|Y..) with every listed variant in names"""
    alt = '(?:' + '|'.join(names) + ')'
    return rf'^(?:is\({term_rx},{alt}\)|in\({term_rx},{alt}(?:\|{alt})*\))$'


EMPTY = within(RR + r'\.data', ['Update0', 'NULL'])
NONEMPTY = rf'^in\({RR}\.data,(?!.*\bNULL\b)(?!.*\bUpdate0\b).*\)$'


def table(cx, rule, f, rows, total):
    rets = cx.returns(f, r'^Result::')
    cx.check(rule, len(rets) == total, f.path, 'returns', 'return-count', f'{len(rets)} returns, {total} in the RFC table')
    used = set()
    for name, term_rx, req in rows:
        cands = [s for s in rets if re.search(term_rx, s.term) and (s.bb, s.si) not in used and all(cx.has_guard(s, rx) for rx in req.values())]
        cx.check(rule, len(cands) >= 1, f.path, 'row:' + name, 'rfc-row-present', f'no return {term_rx} with guards {list(req)}',
                 sample={'fn': shorten(f.path), 'row': name, 'guards': list(req), 'holds': bool(cands)})
        if cands:
            used.add((cands[0].bb, cands[0].si))
    extra = [s for s in rets if (s.bb, s.si) not in used]
    cx.check(rule, not extra, f.path, 'returns', 'no-return-outside-the-table', '; '.join(f'{s.term[:40]} @ {s.loc}' for s in extra))


def run(cx):
    prog = cx.prog
    import C13
    # ---------------------------------------------------------------- P1 (shared with C13.G3)
    U = '<hickory_server::store::sqlite::SqliteZoneHandler<P> as hickory_server::zone_handler::ZoneHandler>::'
    f = cx.fn('C12.P1', U + 'update::{closure@pin#0}')
    if f:
        AU = r'await\(SqliteZoneHandler::authorize_update\(\^arg1,\^arg2,\^arg3\)\)@Ready\.0\.0'
        PR = r'await\(SqliteZoneHandler::verify_prerequisites\(\^arg1,<MessageRequest as UpdateRequest>::prerequisites\(\^arg2\)\)\)@Ready\.0'
        PS = r'await\(SqliteZoneHandler::pre_scan\(\^arg1,<MessageRequest as UpdateRequest>::updates\(\^arg2\)\)\)@Ready\.0'
        ur = cx.calls(f, r'SqliteZoneHandler<P>::update_records$|SqliteZoneHandler::update_records$')
        cx.guard('C12.P1', ur, {'authorised': rf'^ok\({AU}\)$', 'prerequisites-hold': rf'^ok\({PR}\)$', 'prescan-passed': rf'^ok\({PS}\)$'}, expect=1, fn=f)
        other = [s for s in cx.calls(f, r'SqliteZoneHandler|InMemoryZoneHandler') if not re.search(r'::(authorize_update|verify_prerequisites|pre_scan|update_records)(::\{closure#0\})?$', s.label)]
        cx.check('C12.P1', not other, f.path, 'calls', 'no-zone-access-before-the-checks', '; '.join(s.label for s in other))
    # ---------------------------------------------------------------- T1 tables
    v = cx.fn('C12.T1', S + 'verify_prerequisites::{closure#0}')
    if v:
        LK_ANY = r'AuthLookup::was_empty\(LookupControlFlow::unwrap_or_default\(await\(<SqliteZoneHandler<P> as ZoneHandler>::lookup\(\^arg1,into<LowerName>\(.*\.name\),RecordType::ANY,'
        LK_TY = r'AuthLookup::was_empty\(LookupControlFlow::unwrap_or_default\(await\(<SqliteZoneHandler<P> as ZoneHandler>::lookup\(\^arg1,into<LowerName>\(.*\.name\),Record::record_type\('
        rows = [
            ('done', r'^Result::Ok\(\(\)\)$', {'all-seen': r"^!ok\(<Iter<'a;T> as Iterator>::next\(\^arg2\)\)$"}),
            ('ttl!=0 FORMERR', r'FormErr', {'ttl': '^!' + TTL0[1:]}),
            ('outside zone NOTZONE', r'NotZone', {'ttl0': TTL0, 'zone': '^!' + INZONE[1:]}),
            ('ANY/ANY name unused NXDOMAIN', r'NXDomain', {'class': rf'^is\({RR}\.dns_class,ANY\)$', 'type': rf'^is\(Record::record_type\({RR}\),ANY\)$', 'empty': EMPTY, 'unused': '^' + LK_ANY}),
            ('ANY/type missing NXRRSET', r'NXRRSet', {'class': rf'^is\({RR}\.dns_class,ANY\)$', 'empty': EMPTY, 'missing': '^' + LK_TY}),
            ('ANY non-empty FORMERR', r'FormErr', {'class': rf'^is\({RR}\.dns_class,ANY\)$', 'nonempty': NONEMPTY}),
            ('NONE/ANY name in use YXDOMAIN', r'YXDomain', {'class': rf'^is\({RR}\.dns_class,NONE\)$', 'type': rf'^is\(Record::record_type\({RR}\),ANY\)$', 'empty': EMPTY, 'used': '^!' + LK_ANY}),
            ('NONE/type present YXRRSET', r'YXRRSet', {'class': rf'^is\({RR}\.dns_class,NONE\)$', 'empty': EMPTY, 'present': '^!' + LK_TY}),
            ('NONE non-empty FORMERR', r'FormErr', {'class': rf'^is\({RR}\.dns_class,NONE\)$', 'nonempty': NONEMPTY}),
            ('zone class value mismatch NXRRSET', r'NXRRSet', {'class': '^' + ZCLASS + '$', 'no-equal-record': r'^!Iterator::any\(AuthLookup::iter\(.*,closure:SqliteZoneHandler::verify_prerequisites::\{closure#0\}::\{closure@any#0\}\)$|^Iterator::all\(AuthLookup::iter\(.*,closure:SqliteZoneHandler::verify_prerequisites::\{closure#0\}::\{closure@all#0\}\)$'}),
            ('other class FORMERR', r'FormErr', {'class': '^!' + ZCLASS + '$', 'not-any-none': rf'^in\({RR}\.dns_class,(?!.*\bANY\b)(?!.*\bNONE\b).*\)$'}),
        ]
        table(cx, 'C12.T1', v, rows, 11)
        # the value-dependent row compares whole records: `any(|rr| rr == require)` negated, or its dual `all(|rr| rr != require)`
        REQ = r"<Iter<'a;T> as Iterator>::next\(\^\^arg2\)@Some\.0"
        for role, want in (('any', rf'^eq:Record\({REQ},arg2\)$|^eq:Record\(arg2,{REQ}\)$'), ('all', rf'^!eq:Record\({REQ},arg2\)$|^!eq:Record\(arg2,{REQ}\)$')):
            c_ = cx.prog.fn(v.path + '::{closure@' + role + '#0}')
            if c_ is not None:
                t_ = cx.true_returns(c_)
                cx.check('C12.T1', len(t_) == 1 and bool(re.search(want, t_[0].term)), c_.path, 'ret',
                         'value-dependent-prerequisite-compares-whole-records', '; '.join(x.term[:160] for x in t_))
    p = cx.fn('C12.T1', S + 'pre_scan::{closure#0}')
    if p:
        META = within(rf'Record::record_type\({RR}\)', ['ANY', 'AXFR', 'IXFR'])
        XFR = within(rf'Record::record_type\({RR}\)', ['AXFR', 'IXFR'])
        rows = [
            ('done', r'^Result::Ok\(\(\)\)$', {'all-seen': r"^!ok\(<Iter<'a;T> as Iterator>::next\(\^arg2\)\)$"}),
            ('outside zone NOTZONE', r'NotZone', {'zone': '^!' + INZONE[1:]}),
            ('zclass meta type FORMERR', r'FormErr', {'class': '^' + ZCLASS + '$', 'meta': META, 'zone': INZONE}),
            ('ANY ttl!=0 FORMERR', r'FormErr', {'class': rf'^is\({RR}\.dns_class,ANY\)$', 'ttl': '^!' + TTL0[1:]}),
            ('ANY non-empty FORMERR', r'FormErr', {'class': rf'^is\({RR}\.dns_class,ANY\)$', 'ttl0': TTL0, 'nonempty': NONEMPTY}),
            ('ANY xfr type FORMERR', r'FormErr', {'class': rf'^is\({RR}\.dns_class,ANY\)$', 'empty': EMPTY, 'xfr': XFR}),
            ('NONE ttl!=0 FORMERR', r'FormErr', {'class': rf'^is\({RR}\.dns_class,NONE\)$', 'ttl': '^!' + TTL0[1:]}),
            ('NONE meta type FORMERR', r'FormErr', {'class': rf'^is\({RR}\.dns_class,NONE\)$', 'ttl0': TTL0, 'meta': META}),
            ('other class FORMERR', r'FormErr', {'class': '^!' + ZCLASS + '$', 'not-any-none': rf'^in\({RR}\.dns_class,(?!.*\bANY\b)(?!.*\bNONE\b).*\)$'}),
        ]
        table(cx, 'C12.T1', p, rows, 9)
    # ---------------------------------------------------------------- G1 update_records
    u = cx.fn('C12.G1', S + 'update_records::{closure#0}')
    if u:
        head = [s for bb in range(len(u.blocks)) for s, ps in u.edge_props(bb).items() if any(re.search(r"^ok\(<Iter<'a;T> as Iterator>::next\(\^arg2\)\)$", shorten(p)) for p in ps)]
        nxt = cx.calls(u, r"Iter<'a, T> as .*Iterator>::next$")
        nxt = [s for s in nxt if s.term == "<Iter<'a;T> as Iterator>::next(^arg2)"]
        cx.check('C12.G1', len(head) == 1 and len(nxt) == 1, u.path, 'loop', 'update-loop-shape', f'{len(head)}/{len(nxt)}')
        ups = cx.calls(u, r'InMemoryZoneHandler<P>::upsert$|InMemoryZoneHandler::upsert$')
        cx.guard('C12.G1', ups, {'zone-class': '^' + ZCLASS + '$'}, expect=1, fn=u)
        ret = cx.calls(u, r'BTreeMap<K, V, A>::retain$|BTreeMap::retain$')
        cx.guard('C12.G1', ret, {'class-ANY': rf'^is\({RR}\.dns_class,ANY\)$', 'type-ANY': rf'^is\(Record::record_type\({RR}\),ANY\)$'}, expect=1, fn=u)
        rem = cx.calls(u, r'BTreeMap<K, V, A>::remove$|BTreeMap::remove$')
        cx.guard('C12.G1', rem, {'class-ANY': rf'^is\({RR}\.dns_class,ANY\)$', 'empty-rdata': EMPTY,
                                 'not-apex-SOA/NS': rf'^!eq:LowerName\(.*\)$|^in\(Record::record_type\({RR}\),(?!.*\bSOA\b)(?!.*\bNS\b).*\)$'}, expect=1, fn=u)
        rsr = cx.calls(u, r'RecordSet::remove$')
        cx.guard('C12.G1', rsr, {'class-NONE': rf'^is\({RR}\.dns_class,NONE\)$'}, expect=1, fn=u)
        # apex protection: the SOA/NS + origin arm goes straight to the next record
        skip = [s for bb in range(len(u.blocks)) for s, ps in u.edge_props(bb).items()
                if any(re.search(r'^eq:LowerName\(into<LowerName>\(.*\.name\),<SqliteZoneHandler<P> as ZoneHandler>::origin\(\^arg1\)\)$|^eq:LowerName\(<SqliteZoneHandler<P> as ZoneHandler>::origin\(\^arg1\),into<LowerName>\(', shorten(p)) for p in ps)]
        if skip:
            muts = ups + ret + rem + rsr
            reach_ = cx.reachable_from(u, skip, avoid_blocks=[s.bb for s in nxt])
            cx.check('C12.G1', not [m for m in muts if m.bb in reach_], u.path, 'arm', 'apex-SOA/NS-delete-is-skipped', f'{len(skip)} apex arms')
        cx.check('C12.G1', len(skip) >= 1, u.path, 'arm', 'apex-arm-present', str(len(skip)))
        # per-record effects are unconditional on the accumulated flag, and each arm reaches the next record only through its effect
        for s in ups + ret + rem + rsr:
            dep = cx.has_guard(s, r'^!?var\(\w+\)$')
            cx.check('C12.G1', not dep, u.path, s.key(), 'effect-independent-of-updated-flag', 'the zone mutation is control-dependent on the `updated` accumulator (short-circuit?)', s.loc)
        if nxt:
            for s, armrx in ((rem[0] if rem else None, EMPTY), (ups[0] if ups else None, '^' + ZCLASS + '$')):
                if s is None:
                    continue
                arm = [t for bb in range(len(u.blocks)) for t, ps in u.edge_props(bb).items() if any(re.search(armrx, shorten(p)) for p in ps)]
                if s is rem[0] if rem else False:
                    arm = [t for t in arm if s.bb in cx.reachable_from(u, [t], avoid_blocks=[n.bb for n in nxt])]
                cx.must_pass('C12.G1', u, nxt, via_blocks={s.bb}, start_blocks=arm, what='arm-reaches-next-record-only-through-its-effect:' + s.label.split('::')[-1])
        # ------------------------------------------------------------ G2 serial
        bump = cx.calls(u, r'increment_soa_serial$|DnssecZoneHandler>::secure_zone$')
        cx.guard('C12.G2', bump, {'updated': r'^var\(\w+\)$', 'auto-increment': r'^\^arg3$', 'all-records-applied': r"^!ok\(<Iter<'a;T> as Iterator>::next\(\^arg2\)\)$"}, expect=2, fn=u)
        f0 = cx.returns(u, r'^Result::Ok\(false\)$')
        cx.guard('C12.G2', f0, {'all-records-applied': r"^!ok\(<Iter<'a;T> as Iterator>::next\(\^arg2\)\)$"}, expect=1, fn=u)
        for s in f0:
            cx.check('C12.G2', not cx.has_guard(s, r'^var\(\w+\)$') or not cx.has_guard(s, r'^\^arg3$'), u.path, s.key(), 'Ok(false)-only-when-not(updated&&auto)', '', s.loc)
    rc = cx.fn('C12.G1', S + 'update_records::{closure#0}::{closure@retain#0}')
    if rc:
        # RFC 2136 3.4.2.3, CLASS ANY TYPE ANY: "all Zone RRs with the same NAME are deleted, unless the NAME is the same as ZNAME
        # in which case only those RRs whose TYPE is other than SOA or NS are deleted".  The retain predicate (true = keep) is
        # therefore exactly   other-name  OR  ((SOA or NS) AND name == origin)   =   (other|SOA|NS) AND (other|at-origin)
        OTHER = r"!eq:LowerName\(arg2\.name,into<LowerName>\(<Iter<'a;T> as Iterator>::next\(\^\^arg2\)@Some\.0\.name\)\)"
        SOA_ = r'eq:RecordType\(RecordType::SOA,arg2\.record_type\)'
        NS_ = r'eq:RecordType\(RecordType::NS,arg2\.record_type\)'
        APEX = r'eq:LowerName\(<SqliteZoneHandler<P> as ZoneHandler>::origin\(\^\^arg1\),arg2\.name\)'
        cx.bool_cnf('C12.G1', rc, [[OTHER, SOA_, NS_], [OTHER, APEX]], 'delete-all-at-name:keep=other-name-or-apex-SOA/NS')
    # upsert: CNAME exclusivity before insert
    up = cx.fn('C12.G1', 'hickory_server::store::in_memory::inner::InnerInMemory::upsert')
    if up:
        ins = cx.calls(up, r'RecordSet::insert$')
        cx.guard('C12.G1', ins, {'same-class': r'^eq:DNSClass\(arg2\.dns_class,arg4\)$', 'no-CNAME-conflict': r'^!(<Range<.*> as )?Iterator>?::any\(BTreeMap::range\(arg1\.records,'}, expect=1, fn=up)
        # the boolean upsert returns is the ONLY "zone content changed" signal update_records has for added RRs (it decides the
        # serial increment): it must be true exactly when the modified RRset was stored back (`*records = Arc::new(clone)`);
        # a store followed by a computed / false result (e.g. "only when the set grew": CNAME/SOA replace in place) changes the
        # zone without advancing the serial
        stb = {bi for bi, b in enumerate(up.blocks) for st in b['s']
               if st[0] == '=' and isinstance(st[1], list) and st[1][1:] == ['*'] and st[2][0] == 'use'}
        cx.floor('C12.S1', len(stb), 1, 'blocks of upsert that store the modified RRset back into the zone map')
        after = cx.reachable_from(up, stb) | stb if stb else set()
        for r_ in cx.returns(up, r'.'):
            if r_.bb in after:
                cx.check('C12.S1', r_.term == 'true', up.path, r_.key(), 'stored-rrset=>reports-changed', 'returned after the store: ' + r_.term[:120], r_.loc)
        cx.must_pass('C12.S1', up, cx.true_returns(up), via_blocks=stb, what='reports-changed=>rrset-was-stored')
    # RecordSet rules
    ri = cx.fn('C12.G1', 'hickory_proto::rr::rr_set::RecordSet::insert')
    if ri:
        ign = [s for s in cx.returns(ri, r'^false$') if cx.has_guard(s, r'^is\(arg2\.data,SOA\)$')]
        cx.guard('C12.G1', ign, {'soa-serial-compared-in-serial-arithmetic':
                 r'^le:SerialNumber\(SerialNumber::new\(arg2\.data@SOA\.0\.serial\),SerialNumber::new\(slice::first\(arg1\.records\)@Some\.0\.data@SOA\.0\.serial\)\)$'}, expect=1, fn=ri)
        clr = [s for s in cx.calls(ri, r'Vec<T, A>::clear$|Vec::clear$') if cx.has_guard(s, r'^is\(Record::record_type\(arg2\),SOA\)$')]
        cx.guard('C12.G1', clr, {'newer-or-no-existing-soa': r'^!le:SerialNumber\(SerialNumber::new\(arg2\.data@SOA\.0\.serial\),|^!ok\(slice::first\(arg1\.records\)\)$'}, expect=1, fn=ri)
    rr_ = cx.fn('C12.G1', 'hickory_proto::rr::rr_set::RecordSet::remove')
    if rr_:
        ret = cx.calls(rr_, r'Vec<T, A>::retain$|Vec::retain$')
        cx.guard('C12.G1', ret, {'not-SOA': r'^in\(Record::record_type\(arg2\),(?!.*\bSOA\b).*\)$|^is\(Record::record_type\(arg2\),NS\)$',
                                 'not-last-NS': r'^lt\(1,Vec::len\(arg1\.records\)\)$|^in\(Record::record_type\(arg2\),(?!.*\bNS\b).*\)$'}, expect=1, fn=rr_)

    # ---------------------------------------------------------------- T1 (helper): what "the RRset / the name is empty" means
    # verify_prerequisites decides NXDOMAIN / NXRRSET / YXDOMAIN / YXRRSET from AuthLookup::was_empty(); RFC 2136 3.2 speaks of RRs
    # that exist, so emptiness has to be judged on the records the lookup yields (its iterator), not on the containers it holds
    # (an RRset emptied by a class-NONE delete stays in the zone map, and a CNAME chain can consist of such empty RRsets)
    A = 'hickory_server::zone_handler::auth_lookup::'
    for path, it in ((A + 'AuthLookup::was_empty', 'AuthLookup::iter'), (A + 'LookupRecords::was_empty', 'LookupRecords::iter')):
        w_ = cx.fn('C12.T1', path)
        if w_:
            r_ = cx.returns(w_, r'.')
            ok = len(r_) == 1 and bool(re.fullmatch(rf'eq\(0,Iterator::count\({it}\(arg1\)\)\)|!ok\((<.*> as )?Iterator>?::next\({it}\(arg1\)\)\)', r_[0].term))
            cx.check('C12.T1', ok, w_.path, 'ret', 'emptiness-judged-on-the-records-the-iterator-yields', '; '.join(x.term[:100] for x in r_))
    ie = cx.fn('C12.T1', A + 'AuthLookup::is_empty')
    if ie:
        r_ = cx.returns(ie, r'.')
        cx.check('C12.T1', len(r_) == 1 and r_[0].term in ('AuthLookup::was_empty(arg1)', 'eq(0,Iterator::count(AuthLookup::iter(arg1)))'), ie.path, 'ret', 'is_empty=was_empty', '; '.join(x.term[:100] for x in r_))

    # ---------------------------------------------------------------- H helper semantics the guards above rely on (rules/helpers.py)
    # ---------------------------------------------------------------- G3 the DNSSEC-enabled update path advances the serial
    # with is_dnssec_enabled the only serial bump of update_records is the one inside secure_zone_mut (G2 counts the call as the
    # bump): it must happen on every successful pass - whether or not the zone has signing keys - between the NSEC/NSEC3 rebuild and
    # the signing, never behind a condition
    sz = cx.fn('C12.G3', 'hickory_server::store::in_memory::inner::InnerInMemory::secure_zone_mut')
    if sz:
        inc = cx.calls(sz, r'InnerInMemory::increment_soa_serial$')
        cx.check('C12.G3', len(inc) == 1, sz.path, 'calls', 'single-serial-increment', f'{len(inc)} increment site(s)', inc[0].loc if inc else '')
        done_ = [r_ for r_ in cx.returns(sz, r'.') if not re.search(r'from_residual|^Result::Err\(', r_.term)]
        cx.check('C12.G3', len(done_) >= 1, sz.path, 'ret', 'success-returns-present', str(len(done_)))
        cx.must_pass('C12.G3', sz, done_, via_blocks={x.bb for x in inc}, what='every-successful-pass-increments-the-serial')
    helpers.check(cx, 'C12.H', ['LowerName::zone_of', 'SerialNumber::partial_cmp'])

    # ---------------------------------------------------------------- N1 argument names agree with the parameters they are bound to (engine/argnames.py)
    argnames.check(cx, 'C12.N1', r'hickory_server::store::sqlite|hickory_server::store::in_memory', floor=120)
    argnames.check_fields(cx, 'C12.N1', r'hickory_server::store::sqlite|hickory_server::store::in_memory', floor=6)


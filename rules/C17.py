"""C17 — stream framing: message yielded only from a complete body; clean end only at a frame boundary; EOF elsewhere is an
error; prefix precedes body; send state only moves forward."""
import re
import argnames
from api import shorten

EXPLANATION = (
    "GUARD/SEQ rules over hickory-net's TcpStream::poll_next: every return of the function is one of the reviewed forms and "
    "carries its guard set - (G2) Ready(None) (clean end) only under read == 0 in state LenBytes with pos == 0; read == 0 with "
    "pos != 0 in LenBytes, and read == 0 anywhere in state Bytes, return Err(BrokenPipe); any other return is Pending, an io "
    "error propagated by `?`, the peer-mismatch error, or the message; (G1) the message is Ok(SerialMessage::new(ret_buf, peer)) "
    "and ret_buf is taken only by mem::replace out of state Bytes when the new state was produced, i.e. after pos reached "
    "bytes.len(); LenBytes -> Bytes happens only after pos reached 2, with a body buffer of exactly u16::from_be_bytes(len "
    "bytes) octets; positions only grow by the returned count; (Q1) write side: the first write of a message is the vectored "
    "[length[pos..], bytes] with length = to_be_bytes(len as u16); the state moves LenBytes -> Bytes -> Flushing -> None only "
    "forward under the position tests; nothing is polled from outbound_messages while send_state is Some; (G3) the slice handed to poll_read is a re-borrow of the "
    "buffer held in the read state (by-reference binding), never of a by-value copy of it.")
NOT_DECIDED = ("Independence from chunking as such - a schedule property of the position arithmetic; these rules are its guard "
               "skeleton. The `as u16` cast is sound only because every producer encodes with a u16::MAX limit (C03.G1).")
ASSUMPTIONS = ["FULL feature configuration", "AsyncRead/AsyncWrite contracts (returned count <= buffer length)"]

PN = '<hickory_net::tcp::tcp_stream::TcpStream<S> as futures_core::stream::Stream>::poll_next'
RS = r'TcpStream::pollable_split\(arg1\)\.3'
READ_L = rf'try\(AsyncRead::poll_read\(TcpStream::pollable_split\(arg1\)\.0,arg2,array::index_mut\({RS}@LenBytes\.bytes,RangeFrom\(var\(\w+\)\)\)\)@Ready\.0\)@Continue\.0'
READ_B = rf'try\(AsyncRead::poll_read\(TcpStream::pollable_split\(arg1\)\.0,arg2,<Vec<T;A> as IndexMut<I>>::index_mut\({RS}@Bytes\.bytes,RangeFrom\(var\(\w+\)\)\)\)@Ready\.0\)@Continue\.0'


def run(cx):
    f = cx.fn('C17.G2', PN)
    if not f:
        return
    rets = cx.returns(f, r'.')
    forms = {
        'pending': r'^Poll::Pending$',
        'io-error': r'^<Poll<Option<Result<T;F>>> as FromResidual<Result<Infallible;E>>>::from_residual\(',
        'clean-end': r'^Poll::Ready\(Option::None\)$',
        'broken-pipe': r'^Poll::Ready\(Option::Some\(Result::Err\(Error::new\(ErrorKind::BrokenPipe,',
        'peer-mismatch': r'^Poll::Ready\(Option::Some\(Result::Err\(Error::new\(ErrorKind::InvalidData,',
        'message': r'^Poll::Ready\(Option::Some\(Result::Ok\(SerialMessage::new\(',
    }
    by = {k: [] for k in forms}
    for s in rets:
        k = next((k for k, rx in forms.items() if re.search(rx, s.term)), None)
        cx.check('C17.G2', k is not None, f.path, s.key(), 'return-is-a-reviewed-form', s.term[:140], s.loc)
        if k:
            by[k].append(s)
    cx.guard('C17.G2', by['clean-end'], {'in-length-prefix-state': rf'^is\({RS},LenBytes\)$', 'zero-bytes-read': rf'^eq\(0,{READ_L}\)$',
                                         'no-prefix-byte-received': r'^eq\(0,var\(\w+\)\)$', 'not-sending': r'^!ok\(var\(\w+\)\)$'}, expect=1, fn=f)
    bp = by['broken-pipe']
    cx.check('C17.G2', len(bp) == 2, f.path, 'returns', 'two-broken-pipe-returns', str(len(bp)))
    inlen = [s for s in bp if cx.has_guard(s, rf'^is\({RS},LenBytes\)$')]
    inbody = [s for s in bp if cx.has_guard(s, rf'^is\({RS},Bytes\)$')]
    cx.guard('C17.G2', inlen, {'zero-bytes-read': rf'^eq\(0,{READ_L}\)$', 'inside-prefix': r'^!eq\(0,var\(\w+\)\)$'}, expect=1, fn=f)
    cx.guard('C17.G2', inbody, {'zero-bytes-read': rf'^eq\(0,{READ_B}\)$'}, expect=1, fn=f)
    # EOF in the body state has no other outcome: every path from the `read == 0` edge in state Bytes ends in the error
    eof_b = [s for bb in range(len(f.blocks)) for s, ps in f.edge_props(bb).items() if any(re.search(rf'^eq\(0,{READ_B}\)$', shorten(p)) for p in ps)]
    cx.check('C17.G2', len(eof_b) == 1, f.path, 'edge', 'body-eof-edge', str(len(eof_b)))
    if eof_b and inbody:
        reach_ = cx.reachable_from(f, eof_b)
        other = [s for s in rets if s.bb in reach_ and s not in inbody and (s.bb, s.si) != (inbody[0].bb, inbody[0].si)]
        cx.check('C17.G2', not other, f.path, 'edge', 'body-eof-always-errors', '; '.join(s.key() for s in other))
    eof_l = [s for bb in range(len(f.blocks)) for s, ps in f.edge_props(bb).items() if any(re.search(rf'^eq\(0,{READ_L}\)$', shorten(p)) for p in ps)]
    if eof_l:
        reach_ = cx.reachable_from(f, eof_l)
        outs = {(s.bb, s.si) for s in rets if s.bb in reach_}
        want = {(s.bb, s.si) for s in by['clean-end'] + inlen}
        cx.check('C17.G2', outs == want and len(eof_l) == 1, f.path, 'edge', 'prefix-eof-ends-or-errors', f'{len(outs)} outcomes')
    # ---------------------------------------------------------------- G1 message
    cx.check('C17.G1', len(by['message']) == 1, f.path, 'returns', 'single-message-return', str(len(by['message'])))
    rep = cx.calls(f, r'core::mem::replace$|mem::replace$')
    cx.check('C17.G1', len(rep) == 1 and bool(re.search(rf'^mem::replace\({RS},', rep[0].term)), f.path, 'call', 'state-swap', rep[0].term[:80] if rep else 'none')
    for s in by['message']:
        cx.check('C17.G1', 'mem::replace(' in s.term and s.term.rstrip(')').endswith('arg1.peer_addr'), f.path, s.key(), 'message=taken-buffer+peer', s.term[:160], s.loc)
    # new states
    tob = cx.assigns(f, r'^ReadTcpState::Bytes\(', place=None)
    cx.guard('C17.G1', tob, {'prefix-complete': r'^le\(slice::len\(.*LenBytes\.bytes\),var\(\w+\)\)$|^le\(2,var\(\w+\)\)$', 'in-length-prefix-state': rf'^is\({RS},LenBytes\)$'}, expect=1, fn=f)
    for s in tob:
        ok = bool(re.search(rf'^ReadTcpState::Bytes\(0,vec::from_elem\(0,cast<usize>\(num::from_be_bytes\({RS}@LenBytes\.bytes\)\)\)\)$', s.term))
        cx.check('C17.G1', ok, f.path, s.key(), 'body-buffer=be16(prefix)-octets-from-position-0', s.term[:160], s.loc)
    tol = cx.assigns(f, r'^ReadTcpState::LenBytes\(', place=None)
    cx.guard('C17.G1', tol, {'body-complete': rf'^le\(Vec::len\({RS}@Bytes\.bytes\),var\(\w+\)\)$', 'in-body-state': rf'^is\({RS},Bytes\)$'}, expect=1, fn=f)
    for s in tol:
        cx.check('C17.G1', bool(re.search(r'^ReadTcpState::LenBytes\(0,', s.term)), f.path, s.key(), 'next-frame-starts-at-0', s.term[:80], s.loc)
    # the buffer is only taken when the previous state was Bytes
    took = cx.assigns(f, r'^Option::Some\(mem::replace\(', place=None)
    cx.guard('C17.G1', took, {'previous-state-was-Bytes': r'^is\(mem::replace\(.*\),Bytes\)$', 'a-new-state-was-produced': r'^ok\(phi\(Option::None\|Option::Some\(ReadTcpState::Bytes\(|^ok\(var\(\w+\)\)$|^ok\(phi\('}, fn=f)
    cx.check('C17.G1', len(took) >= 1, f.path, 'sites', 'buffer-taken-site', str(len(took)))
    # positions advance by the returned count only
    adv = cx.assigns(f, r'^addwithoverflow\(var\(\w+\),', place=None)
    okadv = all(re.search(r'^addwithoverflow\(var\(\w+\),try\((AsyncRead::poll_read|AsyncWrite::poll_write|AsyncWrite::poll_write_vectored)\(', s.term) for s in adv)
    cx.check('C17.G1', okadv and len(adv) >= 4, f.path, 'stores', 'positions-grow-by-returned-count', f'{len(adv)} position updates')
    # ---------------------------------------------------------------- Q1 write side
    wv = cx.calls(f, r'AsyncWrite::poll_write_vectored$')
    cx.guard('C17.Q1', wv, {'state-LenBytes': r'^is\(var\(\w+\)@Some\.0,LenBytes\)$'}, expect=1, fn=f)
    for s in wv:
        ok = bool(re.search(r'\[IoSlice::new\(array::index\(var\(\w+\)@Some\.0@LenBytes\.length,RangeFrom\(var\(\w+\)\)\)\),IoSlice::new\(var\(\w+\)@Some\.0@LenBytes\.bytes\)\]\)$', s.term))
        cx.check('C17.Q1', ok, f.path, s.key(), 'first-write=[length[pos..],body]', s.term[-200:], s.loc)
    w = cx.calls(f, r'AsyncWrite::poll_write$')
    cx.guard('C17.Q1', w, {'state-Bytes': r'^is\(var\(\w+\)@Some\.0,Bytes\)$'}, expect=1, fn=f)
    fl = cx.calls(f, r'AsyncWrite::poll_flush$')
    cx.guard('C17.Q1', fl, {'state-Flushing': r'^is\(var\(\w+\)@Some\.0,Flushing\)$'}, expect=1, fn=f)
    ob = cx.calls(f, r'Peekable<.*> as .*Stream>::poll_next$|Stream>::poll_next$')
    ob = [s for s in ob if 'pollable_split(arg1).1' in s.term]
    cx.guard('C17.Q1', ob, {'not-sending': r'^!ok\(var\(\w+\)\)$'}, expect=1, fn=f)
    # the in-flight write state is never emptied across a would-block: from the take() whose value is switched on, every
    # path to a `return Poll::Pending` first stores a state back, or goes through "message completely flushed" / "nothing in flight"
    takes = [s for s in cx.calls(f, r'Option<T>::take$|Option::take$|mem::take$') if not cx.has_guard(s, r'^is\(.*,Flushing\)$')]
    cx.check('C17.Q1', len(takes) == 1, f.path, 'calls', 'single-take-of-the-write-state', str(len(takes)))
    pend = cx.assigns(f, r'^Poll::Pending$', place=None)
    cx.floor('C17.Q1', len(pend), 4, 'would-block returns in poll_next')
    back = {s.bb for s in cx.assigns(f, r'^Option::Some\(WriteTcpState::', place=None)}
    cx.check('C17.Q1', len(back) >= 5, f.path, 'stores', 'write-state-stores-present', str(len(back)))
    for t_ in takes[:1]:
        start = f.succs(t_.bb)
        cx.must_pass('C17.Q1', f, pend, via_blocks=back, via_edge=r'^is\(.*@Some\.0,Flushing\)$|^!ok\(Option::take\(|^!ok\(var\(\w+\)\)$|^!ok\(phi\(',
                     start_blocks=[b for b in start if not f.blocks[b]['cleanup']], what='write-state-kept-across-would-block')
    ns = cx.assigns(f, r'^Option::Some\(WriteTcpState::', place=None)
    table = [
        (r'^Option::Some\(WriteTcpState::LenBytes\(var\(\w+\)@Some\.0@LenBytes\.pos,', {'from-LenBytes': r'^is\(var\(\w+\)@Some\.0,LenBytes\)$', 'prefix-incomplete': r'^lt\(var\(\w+\)@Some\.0@LenBytes\.pos,slice::len\(var\(\w+\)@Some\.0@LenBytes\.length\)\)$'}),
        (r'^Option::Some\(WriteTcpState::Bytes\(subwithoverflow\(var\(\w+\)@Some\.0@LenBytes\.pos,slice::len\(var\(\w+\)@Some\.0@LenBytes\.length\)\)\.0,var\(\w+\)@Some\.0@LenBytes\.bytes\)\)$',
         {'from-LenBytes': r'^is\(var\(\w+\)@Some\.0,LenBytes\)$', 'prefix-complete': r'^le\(slice::len\(var\(\w+\)@Some\.0@LenBytes\.length\),var\(\w+\)@Some\.0@LenBytes\.pos\)$',
          'body-incomplete': r'^lt\(var\(\w+\)@Some\.0@LenBytes\.pos,addwithoverflow\(slice::len\(var\(\w+\)@Some\.0@LenBytes\.length\),Vec::len\(var\(\w+\)@Some\.0@LenBytes\.bytes\)\)\.0\)$'}),
        (r'^Option::Some\(WriteTcpState::Bytes\(var\(\w+\)@Some\.0@Bytes\.pos,var\(\w+\)@Some\.0@Bytes\.bytes\)\)$',
         {'from-Bytes': r'^is\(var\(\w+\)@Some\.0,Bytes\)$', 'body-incomplete': r'^lt\(var\(\w+\)@Some\.0@Bytes\.pos,Vec::len\(var\(\w+\)@Some\.0@Bytes\.bytes\)\)$'}),
        (r'^Option::Some\(WriteTcpState::Flushing\)$',
         {'everything-written': r'^le\(addwithoverflow\(slice::len\(var\(\w+\)@Some\.0@LenBytes\.length\),Vec::len\(var\(\w+\)@Some\.0@LenBytes\.bytes\)\)\.0,var\(\w+\)@Some\.0@LenBytes\.pos\)$|^le\(Vec::len\(var\(\w+\)@Some\.0@Bytes\.bytes\),var\(\w+\)@Some\.0@Bytes\.pos\)$'}),
        (r'^Option::Some\(WriteTcpState::LenBytes\(0,num::to_be_bytes\(cast<u16>\(Vec::len\(', {'not-sending': r'^!ok\(var\(\w+\)\)$', 'peer-matches': r'^eq:SocketAddr\(arg1\.peer_addr,'}),
    ]
    unmatched = []
    for s in ns:
        hit = False
        for rx, req in table:
            if re.search(rx, s.term):
                hit = True
                cx.guard('C17.Q1', [s], req, fn=f)
        if not hit:
            unmatched.append(s)
    cx.check('C17.Q1', not unmatched, f.path, 'stores', 'send-state-transitions-reviewed', '; '.join(s.term[:100] for s in unmatched))
    cx.floor('C17.Q1', len(ns), 5, 'send-state stores')
    start = [s for s in ns if re.search(table[4][0], s.term)]
    for s in start:
        ok = bool(re.search(r'^Option::Some\(WriteTcpState::LenBytes\(0,num::to_be_bytes\(cast<u16>\(Vec::len\((.*)\)\)\),\1\)\)$', s.term))
        cx.check('C17.Q1', ok, f.path, s.key(), 'prefix=be16(len(body))-of-the-same-buffer', s.term[:200], s.loc)

    # ---------------------------------------------------------------- T1 the tokio <-> futures-io adapters are transparent
    # every byte count the framing code reasons about comes through these adapters: each method is one forwarding call with
    # the caller's arguments, no loop, no second write (a helpful "write all slices" loop here breaks the length prefix on short writes)
    import loops
    FWD = {
        '<hickory_net::runtime::iocompat::AsyncIoTokioAsStd<W> as futures_io::if_std::AsyncWrite>::poll_write': r'^AsyncWrite::poll_write\(arg1\.0,arg2,arg3\)$',
        '<hickory_net::runtime::iocompat::AsyncIoTokioAsStd<W> as futures_io::if_std::AsyncWrite>::poll_write_vectored': r'^AsyncWrite::poll_write_vectored\(arg1\.0,arg2,arg3\)$',
        '<hickory_net::runtime::iocompat::AsyncIoTokioAsStd<W> as futures_io::if_std::AsyncWrite>::poll_flush': r'^AsyncWrite::poll_flush\(arg1\.0,arg2\)$',
        '<hickory_net::runtime::iocompat::AsyncIoTokioAsStd<W> as futures_io::if_std::AsyncWrite>::poll_close': r'^AsyncWrite::poll_shutdown\(arg1\.0,arg2\)$',
        '<hickory_net::runtime::iocompat::AsyncIoTokioAsStd<R> as futures_io::if_std::AsyncRead>::poll_read': r'^Poll::map_ok\(AsyncRead::poll_read\(arg1\.0,arg2,ReadBuf::new\(arg3\)\),closure:.*\)$',
        '<hickory_net::runtime::iocompat::AsyncIoStdAsTokio<W> as tokio::io::async_write::AsyncWrite>::poll_write': r'^AsyncWrite::poll_write\(arg1\.0,arg2,arg3\)$',
        '<hickory_net::runtime::iocompat::AsyncIoStdAsTokio<W> as tokio::io::async_write::AsyncWrite>::poll_flush': r'^AsyncWrite::poll_flush\(arg1\.0,arg2\)$',
        '<hickory_net::runtime::iocompat::AsyncIoStdAsTokio<W> as tokio::io::async_write::AsyncWrite>::poll_shutdown': r'^AsyncWrite::poll_close\(arg1\.0,arg2\)$',
        '<hickory_net::runtime::iocompat::AsyncIoStdAsTokio<R> as tokio::io::async_read::AsyncRead>::poll_read': r'^Poll::map_ok\(AsyncRead::poll_read\(arg1\.0,arg2,ReadBuf::initialized_mut\(arg3\)\),closure:.*\)$',
    }
    for path, rx in FWD.items():
        g = cx.fn('C17.T1', path)
        if not g:
            continue
        rets = cx.returns(g, r'.')
        ok = len(rets) == 1 and bool(re.match(rx, rets[0].term)) and not loops.has_loops(g)
        io = [s_ for s_ in cx.calls(g, r'::poll_(read|write|write_vectored|flush|close|shutdown)$')]
        cx.check('C17.T1', ok and len(io) == 1, g.path, 'ret', 'adapter-method-is-one-forwarding-call',
                 f'{len(rets)} returns, {len(io)} i/o calls, loops={loops.has_loops(g)}: ' + '; '.join(r_.term[:100] for r_ in rets), f'{g.file}:{g.line}',
                 sample={'fn': shorten(path + '(')[:-1], 'forward': rets[0].term[:80] if rets else '', 'holds': ok and len(io) == 1})
    other = [g for g in cx.prog.find(r'^<hickory_net::runtime::iocompat::AsyncIo\w+<\w> as [\w:]+>::\w+$') if g.path not in FWD]
    cx.check('C17.T1', not other, 'iocompat', 'methods', 'no-unreviewed-adapter-method', ', '.join(shorten(g.path + '(')[:-1] for g in other))

    # ---------------------------------------------------------------- G3 reads land in the state, not in a copy of it
    # the bytes of a length prefix (or body) that arrives in several reads accumulate only if every read writes into the buffer
    # held by the state machine: the slice handed to poll_read must be a re-borrow THROUGH the reference that binds the state's
    # `bytes` field (a `mut bytes` by-value binding of the [u8; 2] prefix compiles, and silently reads into a temporary)
    nbuf = 0
    for bi, c_, t_ in cx.prog.calls_of(f):
        nm = c_.get('res') or c_['def']
        tt = shorten(f.term_call(t_, 0))
        if 'index_mut' not in nm or not re.search(r'@(LenBytes|Bytes)\.bytes', tt) or 'RangeFrom' not in tt:
            continue
        if not re.search(r'TcpStream::pollable_split\(arg1\)\.3', tt):
            continue            # read state only (the write side slices shared data)
        nbuf += 1
        a0 = t_[2][0]
        l0 = a0[1] if isinstance(a0[1], int) else a0[1][0]
        ok = False
        why = 'argument is not a single mutable re-borrow'
        ds = [d for d in f.defs().get(l0, []) if d[2] == 'assign']
        if len(ds) == 1 and ds[0][3][0] == 'ref':
            pl = ds[0][3][1]
            if isinstance(pl, list) and '*' in pl[1:]:
                base = pl[0]
                bd = [d for d in f.defs().get(base, []) if d[2] == 'assign']
                ok = bool(bd) and all(d[3][0] == 'ref' for d in bd)
                why = 'the reference it re-borrows binds the state field by reference' if ok else 'the re-borrowed local is not a by-reference binding of the state field'
            else:
                why = 'the buffer is a local VALUE (a by-value copy of the state field), not a re-borrow of the state'
        cx.check('C17.G3', ok, f.path, f'call:index_mut#{nbuf - 1}', 'read-buffer-is-the-state-own-buffer', why + ': ' + tt[:120], f.loc(bi),
                 sample={'fn': 'TcpStream::poll_next', 'buffer': tt[:90], 'holds': ok})
    cx.floor('C17.G3', nbuf, 2, 'read buffers handed to poll_read (length prefix, body)')

    # ---------------------------------------------------------------- N1 argument names agree with the parameters they are bound to (engine/argnames.py)
    argnames.check(cx, 'C17.N1', r'hickory_net::tcp', floor=8)
    argnames.check_fields(cx, 'C17.N1', r'hickory_net::tcp', floor=7)


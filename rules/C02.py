"""C02 — encode/decode round trip: the structural half - variant tables of reader/writer/type mapping agree, type codes
are inverse, RDATA name-compression policy per type, header bit table, message assembly order and EDNS rcode commit,
sibling readers agree."""
import re
from collections import defaultdict
import core
from api import shorten
import C05

EXPLANATION = (
    "TABLE/GUARD/PATH rules over hickory-proto's wire codec in the feature-full build (value equality of a round trip is a "
    "runtime quantity; what is decided here are the necessary structural agreements between the two directions): (T1) for "
    "every RData / DNSSECRData variant V the reader arm selected by RecordType::V calls V's own decoder and wraps it in the V "
    "constructor, the writer arm for V calls V's own encoder, and record_type() maps V back to RecordType::V; RecordType<->u16, "
    "DNSClass<->u16, OpCode<->u8 and ResponseCode<->u16 tables are mutually inverse on every named code; (T2) names inside RDATA "
    "are emitted under an RDataEncoding guard and only the RFC 3597 section 4 types may compress (shared table with C05); (T3) "
    "each header flag is written with the mask it is read with and that mask is the RFC 1035 4.1.1 / RFC 4035 3 bit; opcode and "
    "rcode nibbles are shifted/masked symmetrically; counts are written and read in the order QD, AN, NS, AR; (G1) "
    "emit_message_parts reserves the header, emits queries, answers, authorities, additionals, then OPT, then TSIG, and "
    "back-patches the header last; the OPT record written is Record::from(edns) after edns.set_rcode_high(response_code.high()) "
    "- the extended rcode is committed into the record that is actually emitted; (G2) Message::read and "
    "MessageRequest::read_with_queries read the three record sections in header order with the count of their own section, "
    "is_additional=true only for the last, and both merge the EDNS high rcode bits into the header rcode; read_records files "
    "OPT and TSIG/SIG(0) out of the additionals exactly when is_additional; (Q2) no emit/read/read_data function of a message part or RDATA "
    "type (cone inside rr::rdata, dnssec::rdata, op, rr::record*) calls a reordering, filtering, truncating or re-casing operation "
    "(sort*, dedup*, retain, reverse, filter, take/skip, to_*case, Vec::remove/insert...), with one reviewed exception (ECS address prefix); (G4) the offset ORed into a compression pointer is below 2^14: guarded where "
    "candidates are stored (write offset < 0x3FFF) or where they are used (top two bits clear) - at least one of the two; (G5) the EDNS client-subnet decoder yields an address of family F only "
    "under address octets <= size of F, the bound the encoder enforces (what decodes can be re-encoded).")
NOT_DECIDED = ("Equality of values after a round trip (case preservation, option ordering, >120 compressed names, pointer offsets >= 0x3FFF, "
               "per-type field order and width agreement between emit and read_data - not linearised by this checker); which of the two "
               "flag octets a mask is applied to.")
ASSUMPTIONS = ["FULL feature configuration", "RFC 1035 4.1.1 / RFC 4035 3 header layout; RFC 3597 4 compressible set {CNAME, MX, NS, PTR, SOA}"]

P = 'hickory_proto::'
# two names for one wire code: the decoder has to pick one (reviewed; nothing else may alias)
ALIASES = {('ResponseCode', 'BADVERS'): ('BADSIG', 'IANA assigns 16 to both BADVERS (RFC 6891) and BADSIG (RFC 8945); the wire format cannot tell them apart')}
READERS = r"(BinDecodable<'\w+>>::read|RecordDataDecodable<'\w+>>::read_data)$"


def variant_table(cx, rule, ty, read_path, emit_rx, rt_path, floor, type_arg='arg2'):
    prog = cx.prog
    rd = cx.fn(rule, read_path)
    em = [f for f in prog.find(emit_rx)]
    cx.check(rule, len(em) == 1, ty, 'anchor', 'single-emit-function', str([f.path for f in em]))
    rt = cx.fn(rule, rt_path)
    if not (rd and em and rt):
        return
    em = em[0]
    variants = {v['name'] for v in (prog.adts.get(P + ('rr::record_data::RData' if ty == 'RData' else 'dnssec::rdata::DNSSECRData'), {}).get('variants') or [])}
    cx.check(rule, len(variants) >= floor, ty, 'adt', 'variants-known', str(len(variants)))
    # --- reader: arm for RecordType::V -> V::read[_data] -> map(ty::V)
    readers = {}
    for bi, c, t in prog.calls_of(rd):
        if re.search(READERS, c.get('res') or c['def']) or re.search(r'RecordDataDecodable::read_data$|BinDecodable::read$', c['def']):
            slf = (c.get('self') or '').split('::')[-1]
            readers[bi] = slf
    rmap = {}
    for s in cx.calls(rd, r'Result<T, E>::map$|Result::map$'):
        m = re.search(rf',fn:{ty}::(\w+)\)$', s.term)
        if not m:
            continue
        v = m.group(1)
        sel = [x for x in (core.path_props(rd, s.bb) or []) if re.match(rf'^(is|in)\({type_arg},', shorten(x))]
        inner = [slf for bi, slf in readers.items() if s.bb in cx.reachable_from(rd, [bi]) and any(shorten(x) == f'is({type_arg},{v})' for x in (core.path_props(rd, bi) or []))]
        rmap[v] = (sel, inner, s)
    for v, (sel, inner, s) in sorted(rmap.items()):
        if v == 'DNSSEC':
            continue
        cx.check(rule, any(shorten(x) == f'is({type_arg},{v})' for x in sel), rd.path, 'read:' + v, 'reader-arm-selected-by-its-own-type', '; '.join(shorten(x) for x in sel)[:160], s.loc)
        cx.check(rule, inner == [v], rd.path, 'read:' + v, 'reader-arm-calls-its-own-decoder', f'decoders reached under RecordType::{v}: {inner}', s.loc,
                 sample={'table': ty, 'variant': v, 'decoder': inner, 'holds': inner == [v]})
    # --- writer: arm for ty::V -> <V as BinEncodable>::emit(self@V.0)
    wmap = {}
    for s in cx.calls(em, r'BinEncodable>::emit$|DNSSECRData::emit$'):
        m = re.match(r'^(?:<(\w+) as BinEncodable>|(DNSSECRData))::emit\(arg1@(\w+)\.(\w+),arg2\)$', s.term)
        if not m:
            continue
        enc, v = m.group(1) or m.group(2), m.group(3)
        wmap[v] = enc
        cx.check(rule, cx.has_guard(s, rf'^is\(arg1,{v}\)$'), em.path, 'emit:' + v, 'writer-arm-selected-by-its-own-variant', s.term, s.loc)
        want = {'Unknown': 'NULL', 'DNSSEC': 'DNSSECRData'}.get(v, v)
        cx.check(rule, enc == want, em.path, 'emit:' + v, 'writer-arm-calls-its-own-encoder', f'{v} is written by {enc}', s.loc)
    # --- type mapping
    tmap = {}
    for s in cx.returns(rt, r'^RecordType::\w+'):
        m = re.match(r'^RecordType::(\w+)', s.term)
        for x in (core.path_props(rt, s.bb) or []):
            m2 = re.match(r'^is\(arg1,(\w+)\)$', shorten(x))
            if m2:
                tmap[m2.group(1)] = m.group(1)
    for v, t in sorted(tmap.items()):
        cx.check(rule, v == t, rt.path, 'type:' + v, 'variant-maps-to-its-own-record-type', f'{v} -> RecordType::{t}')
    skip = {'DNSSEC', 'Unknown', 'ZERO', 'Update0'}
    data = variants - skip
    for name, mp in (('reader', rmap), ('writer', wmap), ('type-map', tmap)):
        missing = sorted(data - set(mp))
        cx.check(rule, not missing, ty, name, 'every-variant-has-an-arm', ', '.join(missing) or f'{len(data)} variants')


def inverse_tables(cx):
    prog = cx.prog
    specs = [('RecordType', 'u16', 'rr/record_type.rs', 38), ('DNSClass', 'u16', 'rr/dns_class.rs', 5), ('OpCode', 'u8', 'op/op_code.rs', 4), ('ResponseCode', 'u16', 'op/response_code.rs', 18)]
    for ty, prim, file, floor in specs:
        dec = [f for f in prog.fns.values() if f.file.endswith(file) and '::tests::' not in f.path and
               (re.search(rf'<hickory_proto::[\w:]+::{ty} as core::convert::From<{prim}>>::from$', f.path) or re.search(rf'::{ty}::from_{prim}$', f.path))]
        enc = [f for f in prog.fns.values() if f.file.endswith(file) and f.meta.get('impl_self') == prim and f.meta.get('impl_trait') == 'core::convert::From' and f.meta.get('kind') == 'AssocFn']
        cx.check('C02.T1', len(dec) >= 1 and len(enc) >= 1, ty, 'anchor', 'code-tables-found', f'decoders {[f.path for f in dec]} encoders {[f.path for f in enc]}')
        if not dec or not enc:
            continue
        d = {}
        for f in dec[:1]:
            for s in cx.returns(f, rf'^{ty}::\w+$') + cx.assigns(f, rf'^{ty}::\w+$', place=None):
                for x in (core.path_props(f, s.bb) or []):
                    m = re.match(r'^eq\((\d+),arg1\)$', shorten(x))
                    if m:
                        d[int(m.group(1))] = s.term.split('::')[1]
        e = {}
        for f in enc:
            args = set()
            for s in cx.returns(f, r'^\d+$') + cx.assigns(f, r'^\d+$', place=None):
                for x in (core.path_props(f, s.bb) or []):
                    m = re.match(r'^(?:is|in)\(arg1,([\w|]+)\)$', shorten(x))
                    if m:
                        for nm in m.group(1).split('|'):
                            args.add(nm)
                            e[nm] = int(s.term)
            if len(args) >= floor // 2:
                break
        cx.floor('C02.T1', len(d), floor, f'{ty} codes decoded')
        for code, v in sorted(d.items()):
            cx.check('C02.T1', e.get(v) == code, ty, f'code:{v}', 'code-tables-inverse', f'{prim} {code} decodes to {v}, {v} encodes to {e.get(v)}',
                     sample={'table': ty, 'variant': v, 'code': code, 'holds': e.get(v) == code})
        for v, code in sorted(e.items()):
            if (ty, v) in ALIASES and d.get(code) == ALIASES[(ty, v)][0]:
                cx.notes.append(f'{ty}::{v} shares code {code} with {d.get(code)}: {ALIASES[(ty, v)][1]}')
                continue
            cx.check('C02.T1', d.get(code) == v, ty, f'variant:{v}', 'code-tables-inverse', f'{v} encodes to {code}, which decodes to {d.get(code)}')


def header_bits(cx):
    prog = cx.prog
    rd = [f for f in prog.find(r"op::header::Header as .*BinDecodable<'\w+>>::read$")]
    em = [f for f in prog.find(r'op::header::Header as .*BinEncodable>::emit$')]
    cx.check('C02.T3', len(rd) == 1 and len(em) == 1, 'Header', 'anchor', 'header-codec-found', f'{len(rd)} {len(em)}')
    if len(rd) != 1 or len(em) != 1:
        return
    rd, em = rd[0], em[0]
    cx.anchors.add(rd.path)
    cx.anchors.add(em.path)
    RFC = {'authoritative': 0x04, 'truncation': 0x02, 'recursion_desired': 0x01, 'recursion_available': 0x80, 'authentic_data': 0x20, 'checking_disabled': 0x10}
    meta = cx.assigns(rd, r'^Metadata\(', place=None)
    cx.check('C02.T3', len(meta) >= 1, rd.path, 'construct', 'metadata-constructed', str(len(meta)))
    if not meta:
        return
    adt = prog.adts.get(P + 'op::header::Metadata') or {}
    fields = [x['name'] if isinstance(x, dict) else x[0] for x in ((adt.get('variants') or [{}])[0].get('fields') or [])]
    args = core.split_args(meta[0].term[len('Metadata('):-1])
    cx.check('C02.T3', len(fields) == len(args) == 10, rd.path, 'construct', 'metadata-has-ten-fields', f'{len(fields)} fields, {len(args)} arguments')
    rmask = {}
    for fld, a in zip(fields, args):
        m = re.match(r'^eq\((\d+),bitand\((\d+),Restrict::unverified\(try\(BinDecoder::pop\(arg1\)\)@Continue\.0\)\)\)$', a)
        if m and m.group(1) == m.group(2):
            rmask[fld] = int(m.group(1))
        elif fld == 'op_code':
            cx.check('C02.T3', a == 'OpCode::from_u8(shr(bitand(120,Restrict::unverified(try(BinDecoder::pop(arg1))@Continue.0)),3))', rd.path, 'field:op_code', 'opcode=(octet&0x78)>>3', a)
        elif fld == 'response_code':
            cx.check('C02.T3', a == 'ResponseCode::from_low(bitand(15,Restrict::unverified(try(BinDecoder::pop(arg1))@Continue.0)))', rd.path, 'field:response_code', 'rcode=octet&0x0F', a)
    wmask = {}
    for s in cx.assigns(em, r'^\d+$', place=None):
        v = int(s.term)
        if v == 0:
            continue
        for x in (core.path_props(em, s.bb) or []):
            m = re.match(r'^arg1(?:\.metadata)?\.(\w+)$', shorten(x))
            if m:
                wmask[m.group(1)] = v
    for fld, bit in RFC.items():
        cx.check('C02.T3', rmask.get(fld) == bit and wmask.get(fld) == bit, 'Header', 'flag:' + fld, 'flag-mask-agrees(read,emit,RFC)',
                 f'read mask {rmask.get(fld)}, emit mask {wmask.get(fld)}, RFC {bit}', sample={'flag': fld, 'read': rmask.get(fld), 'emit': wmask.get(fld), 'rfc': bit})
    qr = [s for s in cx.assigns(em, r'^128$', place=None) if cx.has_guard(s, r'^is\(arg1(\.metadata)?\.message_type,Response\)$')]
    cx.check('C02.T3', len(qr) == 1, em.path, 'flag:QR', 'QR=0x80-for-responses', str(len(qr)))
    qrr = [a for f_, a in zip(fields, args) if f_ == 'message_type']
    cx.check('C02.T3', qrr == ['phi(MessageType::Response|MessageType::Query)'] and
             len([s for s in cx.assigns(rd, r'^MessageType::Response$', place=None) if cx.has_guard(s, r'^eq\(128,bitand\(128,')]) >= 1, rd.path, 'flag:QR', 'QR-read-with-0x80', str(qrr))
    sh = [s for s in cx.assigns(em, r'^shl\(.*OpCode.*,3\)$|^shl\(.*op_code.*,3\)$', place=None)]
    cx.check('C02.T3', len(sh) >= 1, em.path, 'field:op_code', 'opcode<<3', '; '.join(s.term[:80] for s in sh))
    lo = [s for s in cx.calls(em, r'ResponseCode::low$')]
    cx.check('C02.T3', len(lo) == 1, em.path, 'field:response_code', 'rcode-low-nibble-written', str(len(lo)))
    # counts order
    ce = [re.search(r'arg1\.counts\.(\w+)', s.term).group(1) for s in cx.calls(em, r'u16 as .*BinEncodable>::emit$') if 'arg1.counts.' in s.term]
    cx.check('C02.T3', ce == ['queries', 'answers', 'authorities', 'additionals'], em.path, 'counts', 'counts-written-in-header-order', str(ce))
    hc = prog.adts.get(P + 'op::header::HeaderCounts') or {}
    hf = [x['name'] if isinstance(x, dict) else x[0] for x in ((hc.get('variants') or [{}])[0].get('fields') or [])]
    cx.check('C02.T3', hf == ['queries', 'answers', 'authorities', 'additionals'], 'HeaderCounts', 'adt', 'counts-declared-in-header-order', str(hf))


def assembly(cx):
    prog = cx.prog
    f = cx.fn('C02.G1', P + 'op::message::emit_message_parts')
    if not f:
        return
    place = cx.calls(f, r'BinEncoder<\'\w+>::place$|BinEncoder::place$')
    secs = [s for s in cx.calls(f, r'EmitAndCount::emit$')]
    order = [re.match(r'^EmitAndCount::emit\((arg\d),arg8\)$', s.term).group(1) for s in secs if re.match(r'^EmitAndCount::emit\((arg\d),arg8\)$', s.term)]
    cx.check('C02.G1', order == ['arg2', 'arg3', 'arg4', 'arg5'], f.path, 'sections', 'sections-emitted-in-order(QD,AN,NS,AR)', str(order))
    opt = [s for s in cx.calls(f, r'BinEncoder<\'\w+>::emit_iter$|BinEncoder::emit_iter$') if 'into<Record>(' in s.term]
    tsig = [s for s in cx.calls(f, r'BinEncoder<\'\w+>::emit_iter$|BinEncoder::emit_iter$') if s.term == 'BinEncoder::emit_iter(arg8,[arg7@Some.0])']
    rep = cx.calls(f, r'Place<T>::replace$|Place::replace$')
    cx.check('C02.G1', len(place) == 1 and len(opt) == 1 and len(tsig) == 1 and len(rep) == 1, f.path, 'calls', 'header-place,OPT,TSIG,header-replace-present',
             f'place={len(place)} opt={len(opt)} tsig={len(tsig)} replace={len(rep)}')
    if not (len(place) == 1 and len(opt) == 1 and len(tsig) == 1 and len(rep) == 1 and len(secs) == 4):
        return
    seq = [place[0]] + secs + [opt[0], tsig[0], rep[0]]
    names = ['header-place', 'queries', 'answers', 'authorities', 'additionals', 'OPT', 'TSIG', 'header-replace']
    for i in range(len(seq) - 1):
        a, b = seq[i], seq[i + 1]
        back = a.bb in cx.reachable_from(f, [b.bb]) and a.bb != b.bb
        fwd = b.bb in cx.reachable_from(f, [a.bb])
        cx.check('C02.G1', fwd and not back, f.path, f'order:{names[i]}<{names[i + 1]}', 'wire-order-of-message-parts', f'forward={fwd} backward={back}', b.loc)
    # sections dominate what follows: nothing after a section is emitted unless the section's emission succeeded
    cx.guard('C02.G1', [opt[0]], {'after-additionals': r'^ok\(message::count_was_truncated\(EmitAndCount::emit\(arg5,arg8\)\)\)$', 'edns-present': r'^ok\(arg6\)$'}, fn=f)
    cx.guard('C02.G1', [tsig[0]], {'after-additionals': r'^ok\(message::count_was_truncated\(EmitAndCount::emit\(arg5,arg8\)\)\)$', 'tsig-present': r'^ok\(arg7\)$'}, fn=f)
    # the extended rcode is committed into the OPT record that is emitted
    setr = cx.calls(f, r'Edns::set_rcode_high$')
    cx.check('C02.G1', len(setr) == 1, f.path, 'calls', 'edns-rcode-high-set-from-response-code', str(len(setr)))
    for s in setr:
        m = re.match(r'^Edns::set_rcode_high\((.+),ResponseCode::high\((arg1|var\(\w+\))\.response_code\)\)$', s.term)
        okm = bool(m)
        if m and m.group(2) != 'arg1':
            # a local copy of the metadata is as good, provided its rcode is never written
            okm = len(cx.assigns(f, r'^arg1$', place=None)) >= 1 and not cx.assigns(f, r'.', place=r'response_code$')
        cx.check('C02.G1', okm, f.path, s.key(), 'rcode-high-taken-from-the-message-rcode', s.term, s.loc)
        if m:
            cx.check('C02.G1', opt[0].term == f'BinEncoder::emit_iter(arg8,[into<Record>({m.group(1)})])', f.path, opt[0].key(), 'OPT-record-built-from-the-updated-edns', opt[0].term, opt[0].loc)
        cx.must_pass('C02.G1', f, [opt[0]], via_blocks=[s.bb], what='rcode-high-set-before-OPT-is-emitted')
    # header written last carries the counts of what was emitted
    cx.check('C02.G1', bool(re.search(r'Header\(var\(\w+\),HeaderCounts\(', rep[0].term)), f.path, rep[0].key(), 'header-back-patched-with-final-counts', rep[0].term[:120], rep[0].loc)


def readers(cx):
    prog = cx.prog
    fs = [("<hickory_proto::op::message::Message as hickory_proto::serialize::binary::BinDecodable<'r>>::read", r"try\(<Header as BinDecodable<'r>>::read\(arg1\)\)@Continue\.0"),
          (P + 'op::message_request::MessageRequest::read_with_queries', 'arg3')]
    for path, H in fs:
        f = cx.fn('C02.G2', path)
        if not f:
            continue
        rr = cx.calls(f, r'Message::read_records$')
        got = []
        for s in rr:
            m = re.match(rf'^Message::read_records\(arg1,cast<usize>\({H}\.counts\.(\w+)\),(true|false),{H}\.metadata\.op_code\)$', s.term)
            got.append((m.group(1), m.group(2)) if m else ('?', s.term[:80]))
        cx.check('C02.G2', got == [('answers', 'false'), ('authorities', 'false'), ('additionals', 'true')], f.path, 'sections', 'sections-read-in-header-order-with-their-own-count', str(got),
                 sample={'fn': shorten(path + '(')[:-1], 'sections': got})
        for i in range(len(rr) - 1):
            cx.check('C02.G2', rr[i + 1].bb in cx.reachable_from(f, [rr[i].bb]) and rr[i].bb not in cx.reachable_from(f, [rr[i + 1].bb]), f.path, f'order:{i}', 'section-read-order', '')
        mg = cx.calls(f, r'Metadata::merge_response_code$')
        okm = [s for s in mg if re.match(rf'^Metadata::merge_response_code\({H}\.metadata,Edns::rcode_high\(try\(Message::read_records\(arg1,cast<usize>\({H}\.counts\.additionals\),true,', s.term)]
        cx.check('C02.G2', len(okm) == 1, f.path, 'calls', 'edns-high-rcode-merged-into-header-rcode', '; '.join(s.term[:100] for s in mg))
    r = cx.fn('C02.G2', P + 'op::message::Message::read_records')
    if r:
        ed = [s for s in cx.assigns(r, r'^Option::Some\(into<Edns>\(', place=None)]
        cx.check('C02.G2', len(ed) >= 1, r.path, 'stores', 'OPT-filed-as-edns', str(len(ed)))
        cx.guard('C02.G2', ed[:1], {'additional-section': r'^arg3$', 'record-is-OPT': r'^is\(.*,OPT\)$|^eq:RecordType\(RecordType::OPT,'}, fn=r)
    m = cx.fn('C02.G2', P + 'op::header::Metadata::merge_response_code')
    if m:
        st = cx.assigns(m, r'^ResponseCode::from\(ResponseCode::low\(arg1\.response_code\),arg2\)$|^ResponseCode::from\(', place=r'response_code$')
        cx.check('C02.G2', len(st) == 1 and 'arg2' in st[0].term and 'low(arg1.response_code)' in st[0].term, m.path, 'store', 'rcode=from(high,low)', '; '.join(s.term for s in st))


TRANSFORM = re.compile(r'(^|::)(sort\w*|dedup\w*|reverse|retain\w*|rev|to_lowercase|to_ascii_lowercase|make_ascii_lowercase|to_uppercase|to_ascii_uppercase|'
                       r'make_ascii_uppercase|truncate|drain|swap\w*|rotate\w*|filter|filter_map|skip\w*|take|take_while|step_by)$|'
                       r'(Vec|VecDeque|String)(<[^>]*>)?::(pop|remove|insert)$')
CODEC_SCOPE = re.compile(r'hickory_proto::(rr::rdata|dnssec::rdata|op::(edns|query|header|message)|rr::(record|record_data|record_type_set|dns_class|record_type|rr_key))')
# (function, callee) -> reason.  Anything else that reorders, filters or re-cases data inside a codec function is a violation:
# the value written must be the value held, and the value built must be the value read.
TRANSFORM_OK = {
    ("<hickory_proto::rr::rdata::opt::ClientSubnet as hickory_proto::serialize::binary::BinDecodable<'a>>::read", 'Iterator::take'):
        (2, 'RFC 7871 6: the ADDRESS field carries only ceil(prefix/8) octets; the reader takes that many and pads, the writer emits that many'),
}


def pure_codec(cx):
    prog = cx.prog
    from api import cone
    roots = [p for p in prog.fns if re.search(r"(BinEncodable>::emit|BinDecodable<'\w+>>::read|RecordDataDecodable<'\w+>>::read_data)$", p)
             and p.startswith('<hickory_proto') and CODEC_SCOPE.search(p)]
    cx.floor('C02.Q2', len(roots), 100, 'codec entry points (emit / read / read_data impls of message parts and RDATA types)')
    cn = cone(prog, roots, cha_ok=lambda c, t: False, stop=lambda p: not CODEC_SCOPE.search(p))
    cn = {p for p in cn if CODEC_SCOPE.search(p) and '::tests::' not in p and '::test::' not in p}
    cx.floor('C02.Q2', len(cn), 250, 'functions in the codec cone')
    used = defaultdict(int)
    n = 0
    for p in sorted(cn):
        f = prog.fns[p]
        for bi, c, t in prog.calls_of(f):
            if 'op' in c:
                continue
            nm = core.strip_generics(c.get('res') or c['def'])
            if not TRANSFORM.search(nm):
                continue
            n += 1
            key = (p, '::'.join(nm.split('::')[-2:]))
            used[key] += 1
            ok = key in TRANSFORM_OK and used[key] <= TRANSFORM_OK[key][0]
            cx.check('C02.Q2', ok, p, f'call:{key[1]}#{used[key] - 1}', 'codec-neither-reorders-filters-nor-recases',
                     'a wire encoder/decoder of a message part transforms its data (sort/dedup/filter/case/truncate): what is written is no longer what is held, '
                     'so decode(encode(m)) != m for values the transformation changes', f.loc(bi),
                     sample={'fn': shorten(p + '(')[:-1], 'callee': key[1], 'allowed': TRANSFORM_OK.get(key, ('', ''))[1][:80], 'holds': ok})
    cx.notes.append(f'codec cone: {len(cn)} functions from {len(roots)} entry points; {n} data-transforming call(s), all reviewed')


def pointer_range(cx):
    """G4: a compression pointer is 0b11 followed by a 14-bit offset (RFC 1035 4.1.4).  An offset >= 2^14 ORed with 0xC000 silently
    becomes a pointer to (offset & 0x3FFF): the message decodes to other names or not at all.  The tree guards this twice - candidates
    are stored only while the write offset is below 0x3FFF, and Name::emit uses a candidate only if its two top bits are clear.
    Either guard alone is sufficient; the rule requires at least one (dropping both is what breaks messages beyond 16 KiB)."""
    st = cx.fn('C02.G4', P + 'serialize::binary::encoder::BinEncoder::store_label_pointer')
    em = cx.fn('C02.G4', r'<hickory_proto::rr::domain::name::Name as hickory_proto::serialize::binary::BinEncodable>::emit')
    if not st or not em:
        return
    push = cx.calls(st, r'Vec<T, A>::push$|Vec::push$')
    cx.floor('C02.G4', len(push), 1, 'compression candidates stored')
    a = bool(push) and all(cx.has_guard(s, r'^l[te]\(arg1\.offset,(16383|16384)\)$|^l[te]\(arg2,(16383|16384)\)$|^eq\(0,bitand\(arg2,49152\)\)$') for s in push)
    ptr = [s for s in cx.calls(em, r'<u16 as .*BinEncodable>::emit$') if re.search(r'^<u16 as BinEncodable>::emit\(bitor\(49152,', s.term)]
    cx.floor('C02.G4', len(ptr), 1, 'pointer emissions in Name::emit')
    def use_guarded(s):
        if cx.has_guard(s, r'^eq\(0,bitand\(BinEncoder::get_label_pointer\(.*\)@Some\.0,49152\)\)$|^lt\(BinEncoder::get_label_pointer\(.*\)@Some\.0,16384\)$'):
            return True
        # combinator form: get_label_pointer(..).filter(|loc| loc & 0xC000 == 0) - Option::filter keeps the value or yields None
        m = re.search(r'bitor\(49152,Option::filter\(BinEncoder::get_label_pointer\(.*\),closure:<Name as BinEncodable>::emit::(\{closure@filter#\d+\})\)@Some\.0\)', s.term)
        c = cx.prog.fns.get(em.path + '::' + m.group(1)) if m else None
        if c is None:
            return False
        t = cx.true_returns(c)
        return len(t) == 1 and any(re.search(r'^eq\(0,(?:<&u16 as BitAnd<u16>>::)?bitand\(arg2,49152\)\)$|^lt\(arg2,16384\)$', x) for x in t[0].extra)
    b = bool(ptr) and all(use_guarded(s) for s in ptr)
    cx.check('C02.G4', a or b, em.path, 'pointer', 'pointer-offset<2^14(guarded where stored or where used)',
             f'stored-below-0x3FFF={a}; used-only-if-top-bits-clear={b}', ptr[0].loc if ptr else '',
             sample={'fn': 'Name::emit / BinEncoder::store_label_pointer', 'stored_guard': a, 'use_guard': b, 'holds': a or b})
    for s in ptr:
        cx.check('C02.G4', bool(re.search(r'^<u16 as BinEncodable>::emit\(bitor\(49152,(?:Option::filter\()?BinEncoder::get_label_pointer\(', s.term)), em.path, s.key(), 'pointer=0xC000|stored-offset', s.term[:120], s.loc)


def ecs_bounds(cx):
    """G5: what the decoder accepts the encoder can write (second clause of C02: a byte string that decodes re-encodes).  For the
    EDNS client-subnet option both directions bound the number of address octets by the size of the address FAMILY the option names
    (4 for IPv4, 16 for IPv6; RFC 7871 6): ClientSubnet::read yields an address of family F only under addr_len <= octets(F), the
    same bound ClientSubnet::emit enforces."""
    rd = cx.fn('C02.G5', r"<hickory_proto::rr::rdata::opt::ClientSubnet as hickory_proto::serialize::binary::BinDecodable<'a>>::read")
    em = cx.fn('C02.G5', r'<hickory_proto::rr::rdata::opt::ClientSubnet as hickory_proto::serialize::binary::BinEncodable>::emit')
    if not rd or not em:
        return
    LEN = r'cast<usize>\(addwithoverflow\(div\(Restrict::unverified\(try\(BinDecoder::read_u8\(arg1\)\)@Continue\.0\),8\),phi\((1\|0|0\|1)\)\)\.0\)'
    oks = cx.returns(rd, r'^Result::Ok\(ClientSubnet\(')
    cx.check('C02.G5', len(oks) == 2, rd.path, 'returns', 'one-accepting-return-per-family', str(len(oks)))
    for fam, ty, code in (('IPv4', 'Ipv4Addr', 1), ('IPv6', 'Ipv6Addr', 2)):
        ss = [s for s in oks if re.search(rf'^Result::Ok\(ClientSubnet\(into<IpAddr>\({ty}::', s.term)]
        cx.guard('C02.G5', ss, {
            f'family-code-{code}': rf'^eq\({code},Restrict::unverified\(try\(BinDecoder::read_u16\(arg1\)\)@Continue\.0\)\)$|^in\(Restrict::unverified\(try\(BinDecoder::read_u16\(arg1\)\)@Continue\.0\),{code}\)$',
            f'address-octets<=size-of-{fam}': rf'^le\({LEN},(slice::len\({ty}::octets\(const:{ty}::UNSPECIFIED\)\)|{4 if code == 1 else 16})\)$'}, expect=1, fn=rd)
    sl = cx.calls(em, r'BinEncoder<.*>::emit_slice$|BinEncoder::emit_slice$')
    cx.check('C02.G5', len(sl) == 2, em.path, 'calls', 'one-address-write-per-family', str(len(sl)))
    for s in sl:
        cx.check('C02.G5', cx.has_guard(s, r'^le\(cast<usize>\(ClientSubnet::addr_len\(arg1\)\),(slice::len\(Ipv[46]Addr::octets\(.*\)\)|4|16)\)$'), em.path, s.key(),
                 'encoder-bounds-address-octets-by-family-size', s.term[:120], s.loc)


def record_fields(cx):
    """S3: the fixed fields of a decoded resource record are the wire values themselves.  TTL and CLASS are overloaded by pseudo
    records (OPT: EXTENDED-RCODE | VERSION | flags in the TTL, payload size in the CLASS; mDNS cache-flush bit): a read-side
    "sanitisation" of either (clamping a TTL above 2^31-1, say) is correct for ordinary records and silently rewrites the others, so
    that decode(encode(m)) != m.  Record::read builds its Record from read_u32 / the class reader / Name::read unchanged."""
    rd = cx.fn('C02.S3', "<hickory_proto::rr::record::Record as hickory_proto::serialize::binary::BinDecodable<'r>>::read")
    if not rd:
        return
    cons = cx.constructions(rd, 'hickory_proto::rr::record::Record')
    cx.floor('C02.S3', len(cons), 1, 'Record constructions in Record::read')
    want = {'ttl': r'^Restrict::unverified\(try\(BinDecoder::read_u32\(arg1\)\)@Continue\.0\)$',
            'name': r"^try\(<Name as BinDecodable<'r>>::read\(arg1\)\)@Continue\.0$",
            'dns_class': r"^phi\(DNSClass::for_opt\(Restrict::unverified\(try\(BinDecoder::read_u16\(arg1\)\)@Continue\.0\)\)\|try\(<DNSClass as BinDecodable<'_>>::read\(arg1\)\)@Continue\.0\)$"
                         r"|^phi\(try\(<DNSClass as BinDecodable<'_>>::read\(arg1\)\)@Continue\.0\|DNSClass::for_opt\(Restrict::unverified\(try\(BinDecoder::read_u16\(arg1\)\)@Continue\.0\)\)\)$"}
    for (bi, si, loc), fields in cons:
        for k, rx_ in want.items():
            v = shorten(fields.get(k, ''))
            cx.check('C02.S3', bool(re.search(rx_, v)), rd.path, 'field:' + k, 'decoded-record-field-is-the-wire-value', f'{k} = {v[:200]}', loc,
                     sample={'fn': 'Record::read', 'field': k, 'value': v[:120], 'holds': bool(re.search(rx_, v))})


def run(cx):
    pure_codec(cx)
    record_fields(cx)
    ecs_bounds(cx)
    pointer_range(cx)
    variant_table(cx, 'C02.T1', 'RData', P + 'rr::record_data::RData::read', r'^<hickory_proto::rr::record_data::RData as hickory_proto::serialize::binary::BinEncodable>::emit$',
                  P + 'rr::record_data::RData::record_type', 26)
    variant_table(cx, 'C02.T1', 'DNSSECRData', P + 'dnssec::rdata::DNSSECRData::read', r'^hickory_proto::dnssec::rdata::DNSSECRData::emit$',
                  P + 'dnssec::rdata::DNSSECRData::to_record_type', 11)
    inverse_tables(cx)
    C05.check_policy_table(cx, 'C02.T2', compress_only=True)
    header_bits(cx)
    assembly(cx)
    readers(cx)

"""C04 — domain names: only guarded writers touch Name storage, 255/63 guards, Eq/Ord/Hash share one case fold,
comparison skeleton of cmp_labels."""
import re
from api import shorten, writers

EXPLANATION = (
    "WRITE/GUARD/TABLE rules over hickory-proto's name types: (W1) Name.label_data/label_ends are mutably borrowed only in "
    "extend_name (and label_data in randomize_label_case, which flips case in place) and constructed only by Clone, Default, "
    "from_labels, into_wildcard and to_lowercase; (G1) both stores of extend_name are cut off by encoded_len + len + 1 <= "
    "MAX_LENGTH (255); every caller of extend_name passes Label::as_bytes(..) (Label is built only under from_raw_bytes' 1..=63 "
    "guard, wildcard() or a length-preserving map), a label iterated from another Name, or - in read_inner - a slice verified "
    "<= 63; (T1) Name's PartialEq, Ord and PartialOrd all reach cmp_with_f::<CaseInsensitive>, eq additionally requires equal "
    "is_fqdn; Hash feeds is_fqdn and to_ascii_lowercase of every label octet and nothing else; CaseInsensitive::cmp_u8 folds both "
    "operands with to_ascii_lowercase; Label (eq_ignore_ascii_case / cmp_with_f::<CaseInsensitive> / lower-cased hash), LowerName "
    "(built only through Name::to_lowercase; eq_case / cmp_case / raw label hash) and RrKey (field-wise) delegate consistently; "
    "(G2) cmp_labels iterates both names reversed (right to left), returns on the first unequal octet comparison, then on label "
    "length, and finally compares label counts. (G4) the text parser Name::from_encoded_str constructs no length error of its own and never compares the character count of "
    "the presentation form with a limit: lengths are judged on the wire form by the guarded builders it propagates from.")
NOT_DECIDED = ("The order laws themselves, equivalence with RFC 4034 6.1 on values, text and wire round trips (escape state machine) - "
               "value properties.")
ASSUMPTIONS = ["FULL feature configuration", "TinyVec/slice API semantics"]

N = 'hickory_proto::rr::domain::name::'
L = 'hickory_proto::rr::domain::label::'


def run(cx):
    prog = cx.prog
    # ---------------------------------------------------------------- W1 storage writers
    allow_mut = {'label_data': {N + 'Name::extend_name': 'guarded append', N + 'Name::randomize_label_case': 'in-place case flip, length preserved'},
                 'label_ends': {N + 'Name::extend_name': 'guarded append'}}
    allow_con = {'<hickory_proto::rr::domain::name::Name as core::clone::Clone>::clone', '<hickory_proto::rr::domain::name::Name as core::default::Default>::default',
                 N + 'Name::from_labels', N + 'Name::into_wildcard', N + 'Name::to_lowercase'}
    for fld, allowed in allow_mut.items():
        ws = writers(prog, r'domain::name::Name$', '^' + fld + '$')
        mut = {w[0].path for w in ws if w[4] in ('store', 'mutref')}
        con = {w[0].path for w in ws if w[4] == 'construct'}
        cx.check('C04.W1', mut == set(allowed), N + 'Name', 'writers', f'{fld}-mutators', ', '.join(sorted(mut ^ set(allowed))) or 'as reviewed')
        cx.check('C04.W1', con <= allow_con and len(con) >= 3, N + 'Name', 'writers', f'{fld}-constructors', ', '.join(sorted(con - allow_con)) or 'as reviewed')
    # constructors that build storage wholesale: result cannot be longer than the input
    w = cx.fn('C04.W1', N + 'Name::into_wildcard')
    if w:
        ext = cx.calls(w, r'TinyVec<A>::extend_from_slice$|TinyVec::extend_from_slice$')
        cx.check('C04.W1', len(ext) == 1 and bool(re.search(r'<Skip<I> as Iterator>::next\(Iterator::skip\(Name::iter\(arg1\),1\)\)@Some\.0\)$', ext[0].term)), w.path, 'call', 'copies-labels-after-the-first', ext[0].term[:160] if ext else 'none')
        push42 = [s for s in cx.calls(w, r'TinyVec<A>::push$|TinyVec::push$') if s.term.endswith(',42)')]
        cx.check('C04.W1', len(push42) == 1, w.path, 'call', 'one-octet-wildcard-label', str(len(push42)))
    tl = cx.fn('C04.W1', N + 'Name::to_lowercase')
    fl = cx.fn('C04.W1', N + 'Name::from_labels')
    if fl:
        en = cx.calls(fl, r'Name::extend_name$')
        agg = [s for s in cx.assigns(fl, r'^Name\(', place=None)]
        cx.check('C04.W1', bool(en) or bool(agg), fl.path, 'body', 'builds-through-extend_name-or-checked-aggregate', f'extend_name={len(en)} aggregates={len(agg)}')
    # ---------------------------------------------------------------- G1 extend_name
    e = cx.fn('C04.G1', N + 'Name::extend_name')
    if e:
        st = cx.calls(e, r'TinyVec<A>::extend_from_slice$|TinyVec::extend_from_slice$|TinyVec<A>::push$|TinyVec::push$')
        cx.guard('C04.G1', st, {'encoded_len+len+1<=255': r'^le\(addwithoverflow\(addwithoverflow\(Name::encoded_len\(arg1\),slice::len\(arg2\)\)\.0,1\)\.0,const:Name::MAX_LENGTH\)$'}, expect=2, fn=e)
        oks = cx.returns(e, r'^Result::Ok\(')
        cx.guard('C04.G1', oks, {'encoded_len+len+1<=255': r'^le\(addwithoverflow\(addwithoverflow\(Name::encoded_len\(arg1\),slice::len\(arg2\)\)\.0,1\)\.0,const:Name::MAX_LENGTH\)$'}, expect=1, fn=e)
    callers = []
    for f in prog.fns.values():
        if f.crate != 'hickory_proto':
            continue
        for s in cx.calls(f, r'domain::name::Name::extend_name$'):
            callers.append(s)
            ok = bool(re.search(r'^Name::extend_name\(.*,(Label::as_bytes\(.*\)|<LabelIter<\'a> as Iterator>::next\(.*\)@Some\.0)\)$', s.term))
            if f.path == N + 'read_inner':
                ok = cx.has_guard(s, r'^ok\(Result::map_err\(Restrict::verify_unwrap\(try\(BinDecoder::read_character_data\(') or 'Restrict::verify_unwrap(' in s.term
            cx.check('C04.G1', ok, f.path, s.key(), 'label-argument-is-at-most-63-octets', s.term[:200], s.loc)
    cx.floor('C04.G1', len(callers), 4, 'extend_name call sites')
    lab = cx.fn('C04.G1', L + 'Label::from_raw_bytes')
    if lab:
        oks = cx.returns(lab, r'^Result::Ok\(')
        cx.guard('C04.G1', oks, {'non-empty': r'^!slice::is_empty\(arg1\)$', 'len<=63': r'^le\(slice::len\(arg1\),63\)$'}, expect=1, fn=lab)
    lw = writers(prog, r'domain::label::Label$', None)
    lcon = {w[0].path for w in lw if w[4] == 'construct'}
    lmut = {w[0].path for w in lw if w[4] in ('store', 'mutref')}
    allowed_l = {'<hickory_proto::rr::domain::label::Label as core::clone::Clone>::clone', L + 'Label::from_raw_bytes', L + 'Label::to_lowercase', L + 'Label::wildcard'}
    cx.check('C04.G1', lcon <= allowed_l and not lmut, L + 'Label', 'writers', 'label-constructors', ', '.join(sorted((lcon - allowed_l) | lmut)) or 'as reviewed')
    # ---------------------------------------------------------------- T1 one fold for identity
    def generic_of(f, callee_rx):
        out = []
        for bi, c, t in prog.calls_of(f):
            if any(re.search(callee_rx, n) for n in f.callee_names(c)):
                out.append((shorten(f.term_call(t, 0)), [g.rsplit('::', 1)[-1] for g in c.get('gen', [])]))
        return out
    eq = cx.fn('C04.T1', '<hickory_proto::rr::domain::name::Name as core::cmp::PartialEq>::eq')
    if eq:
        g = generic_of(eq, r'Name::cmp_with_f$')
        cx.check('C04.T1', g == [('Name::cmp_with_f(arg1,arg2)', ['CaseInsensitive'])], eq.path, 'call', 'eq-via-cmp_with_f<CaseInsensitive>', str(g))
        t = cx.true_returns(eq)
        cx.guard('C04.T1', t, {'same-fqdn-ness': r'^eq\(arg1\.is_fqdn,arg2\.is_fqdn\)$', 'labels-compare-equal': r'^eq:Ordering\(Ordering::Equal,Name::cmp_with_f\(arg1,arg2\)\)$'}, fn=eq)
        cx.check('C04.T1', len(t) == 1, eq.path, 'ret', 'single-true-return', str(len(t)))
    od = cx.fn('C04.T1', '<hickory_proto::rr::domain::name::Name as core::cmp::Ord>::cmp')
    if od:
        g = generic_of(od, r'Name::cmp_with_f$')
        r = cx.returns(od, r'.')
        cx.check('C04.T1', g == [('Name::cmp_with_f(arg1,arg2)', ['CaseInsensitive'])] and len(r) == 1 and r[0].term == 'Name::cmp_with_f(arg1,arg2)', od.path, 'call', 'cmp-is-cmp_with_f<CaseInsensitive>', str(g))
    po = cx.fn('C04.T1', '<hickory_proto::rr::domain::name::Name as core::cmp::PartialOrd>::partial_cmp')
    if po:
        r = cx.returns(po, r'.')
        cx.check('C04.T1', len(r) == 1 and r[0].term == 'Option::Some(<Name as Ord>::cmp(arg1,arg2))', po.path, 'ret', 'partial_cmp-is-Some(cmp)', '; '.join(s.term for s in r))
    cw = cx.fn('C04.T1', N + 'Name::cmp_with_f')
    if cw:
        cl = cx.returns(cw, r'^Name::cmp_labels\(arg1,arg2\)$')
        cx.check('C04.T1', len(cl) == 1, cw.path, 'ret', 'delegates-to-cmp_labels', str(len(cl)))
        ls = cx.returns(cw, r'^Ordering::(Less|Greater)$')
        cx.guard('C04.T1', ls, {'fqdn-ness-differs': r'^!Name::is_fqdn\(arg1\)$|^!Name::is_fqdn\(arg2\)$'}, expect=2, fn=cw)
    h = cx.fn('C04.T1', '<hickory_proto::rr::domain::name::Name as core::hash::Hash>::hash')
    if h:
        calls = [shorten(h.term_call(t, 0)) for bi, c, t in prog.calls_of(h)]
        fed = [c for c in calls if re.search(r'hash\(|write|for_each', c)]
        # what is fed to the hasher: the fqdn flag, and per label its LENGTH and its octets - nothing else (no label_ends, no case).
        # The length is what keeps `ab.c.` and `a.bc.` apart where a hash value stands in for the name (validation cache key, F25).
        LBL = r"<LabelIter<'a> as Iterator>::next\(Name::iter\(arg1\)\)@Some\.0"
        want = [r'^impls::hash\(arg1\.is_fqdn,arg2\)$',
                r'^Hasher::write_u8\(arg2,cast<u8>\(slice::len\(' + LBL + r'\)\)\)$',
                r"^<Iter<'a;T> as Iterator>::for_each\(slice::iter\(" + LBL + r'\),closure:<Name as Hash>::hash::\{closure@for_each#0\}\)$']
        ok = len(fed) == len(want) and all(re.search(w, f_) for w, f_ in zip(want, fed))
        # loop form of the octet feed: `for &b in label { state.write_u8(b.to_ascii_lowercase()) }`
        want_loop = want[:2] + [r"^Hasher::write_u8\(arg2,num::to_ascii_lowercase\(<Iter<'a;T> as Iterator>::next\((?:slice::iter\()?" + LBL + r"\)?\)@Some\.0\)\)$"]
        loop_form = len(fed) == len(want_loop) and all(re.search(w, f_) for w, f_ in zip(want_loop, fed))
        cx.check('C04.T1', ok or loop_form, h.path, 'calls', 'hash-inputs=is_fqdn+per-label(length,octets)', str(fed))
    hc = None if (h and loop_form and not ok) else cx.fn('C04.T1', '<hickory_proto::rr::domain::name::Name as core::hash::Hash>::hash::{closure@for_each#0}')
    if hc:
        calls = [shorten(hc.term_call(t, 0)) for bi, c, t in prog.calls_of(hc)]
        cx.check('C04.T1', calls[-1:] == ['Hasher::write_u8(^arg2,num::to_ascii_lowercase(arg2))'] and len(calls) == 2, hc.path, 'calls', 'hash-octet-lowercased', str(calls))
    ci = cx.fn('C04.T1', '<hickory_proto::rr::domain::label::CaseInsensitive as hickory_proto::rr::domain::label::LabelCmp>::cmp_u8')
    if ci:
        r = cx.returns(ci, r'.')
        cx.check('C04.T1', len(r) == 1 and r[0].term == 'impls::cmp(num::to_ascii_lowercase(arg1),num::to_ascii_lowercase(arg2))', ci.path, 'ret', 'folds-both-operands', '; '.join(s.term for s in r))
    # siblings
    for p, want in (('<hickory_proto::rr::domain::label::Label as core::cmp::PartialEq>::eq', 'Label::eq_ignore_ascii_case(arg1,arg2)'),
                    ('<hickory_proto::rr::lower_name::LowerName as core::cmp::PartialEq>::eq', 'Name::eq_case(arg1.0,arg2.0)'),
                    ('<hickory_proto::rr::lower_name::LowerName as core::cmp::Ord>::cmp', 'Name::cmp_case(arg1.0,arg2.0)'),
                    ('<hickory_proto::rr::lower_name::LowerName as core::cmp::PartialOrd>::partial_cmp', 'Option::Some(<LowerName as Ord>::cmp(arg1,arg2))'),
                    ('<hickory_proto::rr::domain::label::Label as core::cmp::PartialOrd>::partial_cmp', 'Option::Some(<Label as Ord>::cmp(arg1,arg2))')):
        f = cx.fn('C04.T1', p)
        if f:
            r = cx.returns(f, r'.')
            cx.check('C04.T1', len(r) == 1 and r[0].term == want, p, 'ret', 'sibling-delegation', '; '.join(s.term for s in r) + ' vs ' + want)
    lo = cx.fn('C04.T1', '<hickory_proto::rr::domain::label::Label as core::cmp::Ord>::cmp')
    if lo:
        g = generic_of(lo, r'Label::cmp_with_f$')
        cx.check('C04.T1', g == [('Label::cmp_with_f(arg1,arg2)', ['CaseInsensitive'])], lo.path, 'call', 'label-cmp-case-insensitive', str(g))
    lh = cx.fn('C04.T1', '<hickory_proto::rr::domain::label::Label as core::hash::Hash>::hash')
    if lh:
        ws = [shorten(lh.term_call(t, 0)) for bi, c, t in prog.calls_of(lh) if 'write' in shorten(lh.term_call(t, 0))]
        cx.check('C04.T1', len(ws) == 1 and bool(re.search(r'^Hasher::write_u8\(arg2,num::to_ascii_lowercase\(', ws[0])), lh.path, 'calls', 'label-hash-lowercased', str(ws))
    ln = cx.fn('C04.T1', 'hickory_proto::rr::lower_name::LowerName::new')
    if ln:
        r = cx.returns(ln, r'.')
        cx.check('C04.T1', len(r) == 1 and r[0].term == 'LowerName(Name::to_lowercase(arg1))', ln.path, 'ret', 'LowerName-is-lowercased', '; '.join(s.term for s in r))
    lnw = {w[0].path for w in writers(prog, r'lower_name::LowerName$', None)}
    allowed_ln = {'<hickory_proto::rr::lower_name::LowerName as core::clone::Clone>::clone', '<hickory_proto::rr::lower_name::LowerName as core::default::Default>::default',
                  "<hickory_proto::rr::lower_name::LowerName as hickory_proto::serialize::binary::BinDecodable<'r>>::read", 'hickory_proto::rr::lower_name::LowerName::base_name',
                  'hickory_proto::rr::lower_name::LowerName::into_wildcard', 'hickory_proto::rr::lower_name::LowerName::new'}
    cx.check('C04.T1', lnw <= allowed_ln, 'hickory_proto::rr::lower_name::LowerName', 'writers', 'LowerName-constructors', ', '.join(sorted(lnw - allowed_ln)) or 'as reviewed')
    for p in ('hickory_proto::rr::lower_name::LowerName::base_name', "<hickory_proto::rr::lower_name::LowerName as hickory_proto::serialize::binary::BinDecodable<'r>>::read", 'hickory_proto::rr::lower_name::LowerName::into_wildcard'):
        f = cx.fn('C04.T1', p)
        if f:
            agg = cx.assigns(f, r'^LowerName\(', place=None) + cx.returns(f, r'LowerName\(|LowerName::new\(|Result::map\(')
            ok = all(re.search(r'LowerName\((Name::base_name|Name::into_wildcard)\(arg1\.0\)\)|LowerName\(Name::to_lowercase\(|LowerName::new|fn:LowerName::new|closure', s.term) for s in agg) and bool(agg)
            cx.check('C04.T1', ok, p, 'ret', 'stays-lowercase', '; '.join(s.term[:80] for s in agg))
    # ---------------------------------------------------------------- G2 cmp_labels
    c = cx.fn('C04.G2', N + 'Name::cmp_labels')
    if c:
        r = cx.returns(c, r'.')
        ZIP = r"<Zip<A;B> as Iterator>::next\(Iterator::zip\(Iterator::rev\(Name::iter\(arg1\)\),Iterator::rev\(Name::iter\(arg2\)\)\)\)"
        octet = [s for s in r if s.term.startswith('LabelCmp::cmp_u8(')]
        length = [s for s in r if re.search(rf'^impls::cmp\(slice::len\({ZIP}@Some\.0\.0\),slice::len\({ZIP}@Some\.0\.1\)\)$', s.term)]
        count = [s for s in r if s.term == 'impls::cmp(TinyVec::len(arg1.label_ends),TinyVec::len(arg2.label_ends))']
        cx.check('C04.G2', len(octet) == 1 and len(length) == 1 and len(count) == 1 and len(r) == 3, c.path, 'ret', 'three-returns(octet,length,count)', '; '.join(s.term[:60] for s in r))
        cx.guard('C04.G2', octet, {'right-to-left-label-pair': rf'^ok\({ZIP}\)$'}, fn=c)
        for s in octet:
            cx.check('C04.G2', bool(re.search(rf'slice::iter\({ZIP}@Some\.0\.0\),slice::iter\({ZIP}@Some\.0\.1\)', s.term)), c.path, s.key(), 'octets-of-the-paired-labels', s.term[:120], s.loc)
        OCT_DONE = rf"^!ok\(<Zip<A;B> as Iterator>::next\(Iterator::zip\(slice::iter\({ZIP}@Some\.0\.0\),slice::iter\({ZIP}@Some\.0\.1\)\)\)\)$"
        cx.guard('C04.G2', length, {'after-all-common-octets-equal': OCT_DONE}, fn=c)
        cx.guard('C04.G2', count, {'after-all-common-labels-equal': rf'^!ok\({ZIP}\)$'}, fn=c)

    # ---------------------------------------------------------------- G3 compression keeps the spelling
    # a name may be replaced by a pointer only to an earlier byte-identical suffix: any looser match (e.g. ignoring ASCII case)
    # makes the name decode with the other name's letter case
    g = cx.fn('C04.G3', 'hickory_proto::serialize::binary::encoder::BinEncoder::get_label_pointer')
    if g:
        hits = cx.returns(g, r'^Option::Some\(')
        cx.guard('C04.G3', hits, {'candidate-bytes-equal-the-suffix-bytes':
                                  r"^eq:\[u8\]\(Vec::as_slice\(<Iter<'a;T> as Iterator>::next\(arg1\.name_pointers\)@Some\.0\.1\),BinEncoder::slice_of\(arg1,arg2,arg3\)\)$"}, expect=1, fn=g)
        for s_ in hits:
            cx.check('C04.G3', bool(re.match(r"^Option::Some\(cast<u16>\(<Iter<'a;T> as Iterator>::next\(arg1\.name_pointers\)@Some\.0\.0\)\)$", s_.term)), g.path, s_.key(),
                     'pointer-is-the-offset-stored-with-the-matching-candidate', s_.term, s_.loc)

    # ---------------------------------------------------------------- G4 text parsing judges lengths on the wire form only
    # a legal name can print to more than 255 characters (`\.` and `\DDD` escapes take 2-4 characters per octet): the text parser must
    # not reject on the length of the presentation string.  Every length error of Name::from_encoded_str is one propagated from the
    # guarded builders (to_label / append_label / append_name / append_domain); the function constructs no length error of its own
    # and never compares the input's character count with a name or label limit.
    fe = cx.fn('C04.G4', 'hickory_proto::rr::domain::name::Name::from_encoded_str')
    if fe:
        own = [s for s in cx.returns(fe, r'.') if re.search(r'DecodeError::(DomainNameTooLong|LabelBytesTooLong)\(', s.term) and not re.search(r'from_residual\(', s.term)]
        cx.check('C04.G4', not own, fe.path, 'returns', 'no-length-error-from-the-text-form', '; '.join(f'{s.term[:90]} @ {s.loc}' for s in own))
        bad = []
        for bi in range(len(fe.blocks)):
            for t_, ps in (fe.edge_props(bi) or {}).items():
                for p_ in ps:
                    sp = shorten(p_)
                    if re.search(r'str::len\(|String::len\(|Chars.*count\(', sp) and re.search(r'MAX_LENGTH|MAX_LABEL|\b255\b|\b63\b|\b253\b', sp):
                        bad.append(f'{sp[:100]} @ {fe.loc(bi)}')
        cx.check('C04.G4', not bad, fe.path, 'guards', 'no-limit-test-on-the-character-count', '; '.join(sorted(set(bad))[:3]))
        prop = [s for s in cx.returns(fe, r'from_residual\(try\((LabelEnc::to_label|Name::append_label|Name::append_name|Name::append_domain)\(')]
        cx.floor('C04.G4', len(prop), 3, 'length/label errors of from_encoded_str propagated from the guarded builders')

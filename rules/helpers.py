"""Shared helper-semantics rules.

The guard rules of the properties take the meaning of a few dozen small predicates and selectors for granted ("the key is a
zone key", "name is below the zone", "strip the leftmost label").  A change inside one of them changes what every guard that
mentions it means, without touching any anchored decision procedure.  Each helper below is decided from its own MIR: every
return of the function must be one of the listed outcomes (term in normal form + the guards it must carry) and every listed
outcome must exist.  The expected outcomes are transcribed from the RFC / the doc comment of the helper, not from its body.

A property's rule file calls `check(cx, 'Cxx.H', [names...])` with the helpers ITS guards rely on.
"""
import re
from api import shorten

PN = 'hickory_proto::rr::domain::name::Name::'
PL = 'hickory_proto::rr::lower_name::LowerName::'
LEN1, LEN2 = r'TinyVec::len\(arg1\.label_ends\)', r'TinyVec::len\(arg2\.label_ends\)'
HALF = r'const:<SerialNumber as PartialOrd>::partial_cmp::SERIAL_BITS_HALF'
DL, AL = r'PrefixSet::get_lpm\(arg1\.deny,arg2\)', r'PrefixSet::get_lpm\(arg1\.allow,arg2\)'

# name -> (path, [(term regex, [guard regex, ...]), ...], why)
SIMPLE = {
    'Name::zone_of': (PN + 'zone_of', [(r'^Name::zone_of_with\(arg1,arg2,fn:ascii::eq_ignore_ascii_case\)$', [])],
                      'zone_of compares labels ASCII-case-insensitively (RFC 4343)'),
    'Name::zone_of_case': (PN + 'zone_of_case', [(r'^Name::zone_of_with\(arg1,arg2,fn:cmp::eq\)$', [])], 'case-sensitive variant used on LowerName'),
    'Name::zone_of_with': (PN + 'zone_of_with', [
        (r'^true$', [rf'^eq\(0,{LEN1}\)$|^in\({LEN1},0\)$|^TinyVec::is_empty\(arg1\.label_ends\)$']),
        (r'^false$', [rf'^eq\(0,{LEN2}\)$|^in\({LEN2},0\)$|^lt\({LEN2},{LEN1}\)$']),
        (r'^Iterator::all\(Iterator::zip\(Iterator::rev\(Name::iter\(arg1\)\),Iterator::rev\(Name::iter\(arg2\)\)\),closure:Name::zone_of_with::\{closure@all#0\}\)$', [])],
        'self is a zone of name iff self has no more labels than name and the labels agree from the RIGHT (root end); root is a zone of everything'),
    'Name::zone_of_with::{closure@all#0}': (PN + 'zone_of_with::{closure@all#0}', [(r'^indirect\(\^arg3\)\(arg2\.0,arg2\.1\)$', [])], 'label pair compared with the supplied comparator'),
    'Name::base_name': (PN + 'base_name', [
        (rf'^Name::trim_to\(arg1,(subwithoverflow\({LEN1},1\)\.0|num::(saturating|wrapping)_sub\({LEN1},1\))\)$', [rf'^lt\(0,{LEN1}\)$|^!TinyVec::is_empty\(arg1\.label_ends\)$|^!eq\(0,{LEN1}\)$']),
        (r'^arg1$|^Name::root\(\)$', [rf'^le\({LEN1},0\)$|^TinyVec::is_empty\(arg1\.label_ends\)$|^eq\(0,{LEN1}\)$'])],
        'base_name strips exactly one (the leftmost) label'),
    'Name::trim_to': (PN + 'trim_to', [
        (r'^arg1$', [rf'^lt\({LEN1},arg2\)$']),
        (rf'^Result::unwrap\(Name::from_labels\(Iterator::skip\(Name::iter\(arg1\),subwithoverflow\({LEN1},arg2\)\.0\)\)\)$', [rf'^le\(arg2,{LEN1}\)$'])],
        'trim_to(n) keeps the n RIGHTMOST labels (skips len-n from the left)'),
    'Name::is_wildcard': (PN + 'is_wildcard', [(r"^Option::is_some_and\(<LabelIter<'a> as Iterator>::next\(Name::iter\(arg1\)\),closure:Name::is_wildcard::\{closure@is_some_and#0\}\)$", [])],
                          'wildcard = the LEFTMOST label is `*` (RFC 4592 2.1.1)'),
    'Name::is_wildcard::{closure@is_some_and#0}': (PN + 'is_wildcard::{closure@is_some_and#0}', [(r'^eq:\[u8\]\(arg2,lit:b"\*"\)$|^eq:\[u8\]\(lit:b"\*",arg2\)$', [])], 'the label is exactly the one octet `*`'),
    'Name::is_root': (PN + 'is_root', [(r'^Name::is_fqdn\(arg1\)$|^arg1\.is_fqdn$', [r'^TinyVec::is_empty\(arg1\.label_ends\)$']), (r'^false$', [r'^!TinyVec::is_empty\(arg1\.label_ends\)$'])],
                      'root = no labels and fully qualified'),
    'LowerName::zone_of': (PL + 'zone_of', [(r'^Name::zone_of_case\(arg1\.0,arg2\.0\)$|^Name::zone_of\(arg1\.0,arg2\.0\)$', [])], 'delegates, receiver is the zone'),
    'LowerName::base_name': (PL + 'base_name', [(r'^LowerName\(Name::base_name\(arg1\.0\)\)$', [])], 'delegates'),
    'LowerName::is_wildcard': (PL + 'is_wildcard', [(r'^Name::is_wildcard\(arg1\.0\)$', [])], 'delegates'),
    'LowerName::into_wildcard': (PL + 'into_wildcard', [(r'^LowerName\(Name::into_wildcard\(arg1\.0\)\)$', [])], 'delegates'),
    'LowerName::is_root': (PL + 'is_root', [(r'^Name::is_root\(arg1\.0\)$', [])], 'delegates'),
    'LowerName::num_labels': (PL + 'num_labels', [(r'^Name::num_labels\(arg1\.0\)$', [])], 'delegates'),
    'Proof::is_secure': ('hickory_proto::dnssec::proof::Proof::is_secure', [(r'^eq:Proof\(Proof::Secure,arg1\)$|^eq:Proof\(arg1,Proof::Secure\)$|^is\(arg1,Secure\)$', [])], 'Secure only'),
    'DNSKEY::zone_key': ('hickory_proto::dnssec::rdata::dnskey::DNSKEY::zone_key', [(r'^!eq\(0,bitand\(arg1\.flags,256\)\)$|^eq\(256,bitand\(arg1\.flags,256\)\)$', [])],
                         'Zone Key flag is bit 7 of the 16-bit flags field = 0x0100 (RFC 4034 2.1.1)'),
    'DNSKEY::revoke': ('hickory_proto::dnssec::rdata::dnskey::DNSKEY::revoke', [(r'^!eq\(0,bitand\(arg1\.flags,128\)\)$|^eq\(128,bitand\(arg1\.flags,128\)\)$', [])],
                       'REVOKE flag is bit 8 = 0x0080 (RFC 5011 7)'),
    'DS::covers': ('hickory_proto::dnssec::rdata::ds::DS::covers', [(r'^Result::map\(DNSKEY::to_digest\(arg3,arg2,DS::digest_type\(arg1\)\),closure:DS::covers::\{closure@map#0\}\)$', [])],
                   'digest of (owner name | DNSKEY RDATA) with the DS digest type (RFC 4034 5.1.4)'),
    'DS::covers::{closure@map#0}': ('hickory_proto::dnssec::rdata::ds::DS::covers::{closure@map#0}', [
        (r'^false$', [r'^!DNSKEY::zone_key\(\^arg3\)$']),
        (r'^eq:\[u8\]\(arg2,DS::digest\(\^arg1\)\)$|^eq:\[u8\]\(DS::digest\(\^arg1\),arg2\)$', [r'^DNSKEY::zone_key\(\^arg3\)$'])],
        'covers iff the key is a zone key and the computed digest equals the DS digest, whole'),
    'Algorithm::is_supported': ('hickory_proto::dnssec::algorithm::Algorithm::is_supported', [
        (r'^true$', [r'^in\(arg1,RSASHA1\|RSASHA1NSEC3SHA1\|RSASHA256\|RSASHA512\|ECDSAP256SHA256\|ECDSAP384SHA384\|ED25519\)$']),
        (r'^false$', [r'^in\(arg1,RSAMD5\|DSA\|Unknown\)$'])],
        'RSAMD5 and DSA MUST NOT be used for validation (RFC 8624 3.1); unknown algorithms are unsupported'),
    'RecordTypeSet::contains': ('hickory_proto::rr::record_type_set::RecordTypeSet::contains', [(r'^BTreeSet::contains\(arg1\.types,arg2\)$', [])], 'membership of the asked type'),
    'NSEC::type_set': ('hickory_proto::dnssec::rdata::nsec::NSEC::type_set', [(r'^arg1\.type_bit_maps$', [])], 'accessor'),
    'NSEC3::type_set': ('hickory_proto::dnssec::rdata::nsec3::NSEC3::type_set', [(r'^arg1\.type_bit_maps$', [])], 'accessor'),
    'Edns::version': ('hickory_proto::op::edns::Edns::version', [(r'^arg1\.version$', [])], 'accessor'),
    'Edns::max_payload': ('hickory_proto::op::edns::Edns::max_payload', [(r'^arg1\.max_payload$', [])], 'accessor'),
    'AccessControl::allow': ('hickory_server::access::AccessControl::allow', [
        (r'^InnerAccessControl::allow\(arg1\.ipv4,into<Ipv4Net>\(IpAddr::to_canonical\(arg2\)@V4\.0\)\)$', [r'^is\(IpAddr::to_canonical\(arg2\),V4\)$']),
        (r'^InnerAccessControl::allow\(arg1\.ipv6,into<Ipv6Net>\(IpAddr::to_canonical\(arg2\)@V6\.0\)\)$', [r'^is\(IpAddr::to_canonical\(arg2\),V6\)$'])],
        'the canonical (v4-mapped folded) source address is evaluated against the list of its own family'),
    'RecordType::is_any': ('hickory_proto::rr::record_type::RecordType::is_any', [(r'^eq:RecordType\(RecordType::ANY,arg1\)$|^eq:RecordType\(arg1,RecordType::ANY\)$|^is\(arg1,ANY\)$', [])], 'ANY only'),
}


def _simple(cx, rule, name):
    path, outcomes, why = SIMPLE[name]
    f = cx.fn(rule, path)
    if not f:
        return
    rets = cx.returns(f, r'.')
    used = set()
    for s in rets:
        hit = None
        for i, (trx, guards) in enumerate(outcomes):
            if re.search(trx, s.term) and all(cx.has_guard(s, g) for g in guards):
                hit = i
                break
        if hit is not None:
            used.add(hit)
        cx.check(rule, hit is not None, f.path, s.key(), 'helper-outcome-is-one-of-the-specified', f'{name}: {why}; got `{s.term[:140]}`', s.loc,
                 sample={'helper': name, 'returns': s.term[:100], 'holds': hit is not None})
    for i, (trx, guards) in enumerate(outcomes):
        cx.check(rule, i in used, f.path, f'outcome#{i}', 'helper-specified-outcome-present', f'{name}: no return matches {trx[:100]} under {guards}')


def _serial(cx, rule):
    """RFC 1982 3.2 for SERIAL_BITS = 32: i1 < i2 iff (i1 < i2 and i2 - i1 < 2^31) or (i1 > i2 and i1 - i2 > 2^31); symmetric for >;
    equal iff i1 == i2; otherwise (distance exactly 2^31) undefined."""
    f = cx.fn(rule, '<hickory_proto::rr::serial_number::SerialNumber as core::cmp::PartialOrd>::partial_cmp')
    if not f:
        return
    A, B = r'arg1\.0', r'arg2\.0'
    d21, d12 = rf'subwithoverflow\({B},{A}\)\.0', rf'subwithoverflow\({A},{B}\)\.0'
    lt12 = (rf'lt\({A},{B}\)', rf'le\({B},{A}\)')
    gt12 = (rf'lt\({B},{A}\)', rf'le\({A},{B}\)')
    near21 = (rf'lt\({d21},{HALF}\)', rf'le\({HALF},{d21}\)')
    far21 = (rf'lt\({HALF},{d21}\)', rf'le\({d21},{HALF}\)')
    near12 = (rf'lt\({d12},{HALF}\)', rf'le\({HALF},{d12}\)')
    far12 = (rf'lt\({HALF},{d12}\)', rf'le\({d12},{HALF}\)')
    eq = (rf'eq\({A},{B}\)', rf'!eq\({A},{B}\)')
    cx.outcome_dnf(rule, f, {
        r'^Option::Some\(Ordering::Equal\)$': [[eq]],
        r'^Option::Some\(Ordering::Less\)$': [[lt12, near21], [gt12, far12]],
        r'^Option::Some\(Ordering::Greater\)$': [[lt12, far21], [gt12, near12]],
    }, r'^Option::None$', 'serial-number-order=RFC1982-3.2')
    c = [s for s in cx.returns(f, r'.')]
    cx.floor(rule, len(c), 4, 'outcomes of SerialNumber::partial_cmp')


def _into_wildcard(cx, rule):
    f = cx.fn(rule, PN + 'into_wildcard')
    if not f:
        return
    calls = cx.calls(f, r'.')
    star = [s for s in calls if re.search(r'^TinyVec::push\(.*,42\)$', s.term)]
    skip = [s for s in calls if re.search(r'^Iterator::skip\(Name::iter\(arg1\),1\)$', s.term) and 'skip' in s.label]
    ext = [s for s in calls if re.search(r"^TinyVec::extend_from_slice\(.*,<Skip<I> as Iterator>::next\(Iterator::skip\(Name::iter\(arg1\),1\)\)@Some\.0\)$", s.term)]
    cx.check(rule, len(star) == 1, f.path, 'calls', 'wildcard-label-is-the-single-octet-*', str(len(star)))
    cx.check(rule, len(skip) == 1 and len(ext) == 1, f.path, 'calls', 'wildcard-replaces-exactly-the-leftmost-label', f'skip(1)={len(skip)} copy-rest={len(ext)}')


def _acl(cx, rule):
    """InnerAccessControl::allow, as an exact boolean function of five atoms (whatever the spelling: match table or expression):
    D / A = the source has a longest-prefix match in the deny / allow list, L = the deny match is less specific than the allow match,
    ND / NA = the deny / allow list is non-empty.   allow = (!D | A) & (!D | !A | L) & (D | A | ND | !NA): in deny only -> refused; in
    both -> served iff allow is more specific; in allow only -> served; in neither -> served unless only allow networks exist."""
    f = cx.fn(rule, 'hickory_server::access::InnerAccessControl::allow')
    if not f:
        return
    D, A = DL.join(['ok\\(', '\\)']), AL.join(['ok\\(', '\\)'])
    L = rf'lt\(Prefix::prefix_len\({DL}@Some\.0\),Prefix::prefix_len\({AL}@Some\.0\)\)'
    ND = r"ok\(<Iter<'_;P> as Iterator>::next\(PrefixSet::iter\(arg1\.deny\)\)\)"
    NA = r"ok\(<Iter<'_;P> as Iterator>::next\(PrefixSet::iter\(arg1\.allow\)\)\)"
    NL = rf'le\(Prefix::prefix_len\({AL}@Some\.0\),Prefix::prefix_len\({DL}@Some\.0\)\)'
    cx.bool_cnf(rule, f, [['!' + D, A], ['!' + D, '!' + A, (L, NL)], [D, A, ND, '!' + NA]], 'acl-decision=(!D|A)&(!D|!A|L)&(D|A|ND|!NA)')


SPECIAL = {'SerialNumber::partial_cmp': _serial, 'Name::into_wildcard': _into_wildcard, 'InnerAccessControl::allow': _acl}
# helpers pulled in transitively
CLOSURE = {'Name::zone_of': ['Name::zone_of_with', 'Name::zone_of_with::{closure@all#0}'], 'Name::zone_of_case': ['Name::zone_of_with', 'Name::zone_of_with::{closure@all#0}'],
           'Name::base_name': ['Name::trim_to'], 'Name::is_wildcard': ['Name::is_wildcard::{closure@is_some_and#0}'],
           'LowerName::zone_of': ['Name::zone_of_case'], 'LowerName::base_name': ['Name::base_name'], 'LowerName::is_wildcard': ['Name::is_wildcard'],
           'LowerName::into_wildcard': ['Name::into_wildcard'], 'LowerName::is_root': ['Name::is_root'], 'DS::covers': ['DS::covers::{closure@map#0}', 'DNSKEY::zone_key'], 'AccessControl::allow': ['InnerAccessControl::allow']}


def check(cx, rule, names):
    todo, done = list(names), []
    while todo:
        n = todo.pop(0)
        if n in done:
            continue
        done.append(n)
        todo += CLOSURE.get(n, [])
    for n in done:
        if n in SPECIAL:
            SPECIAL[n](cx, rule)
        else:
            _simple(cx, rule, n)
    cx.notes.append(f'{rule}: helper semantics decided for {len(done)} helpers: ' + ', '.join(done))
    return done

"""C14 — journal-backed zones: write-ahead order; journal error => no mutation; post-update SOA row; replay with
auto-increment off; all rows of one UPDATE in one transaction; prescan/apply agreement."""
import re
import argnames
import core
from api import shorten

EXPLANATION = (
    "PATH/GUARD/WRITE rules over the sqlite store (sqlite + dnssec-ring build): (P1) in update_records the journal.insert_records "
    "call precedes every mutation of the in-memory zone and its Err edge returns SERVFAIL without reaching one; (P2) every path "
    "returning Ok(true) with a journal present inserted the post-update SOA row with the new serial, whose Err edge returns "
    "SERVFAIL; (G1) recover_with_journal replays each row through update_records(.., false), the AXFR marker clears the zone, any "
    "replay error aborts recovery, recovery starts from an empty zone; try_from_config prefers an existing journal and otherwise "
    "loads the zone file, attaches a new journal and writes the initial dump; (P3) Journal::insert_records brackets all row "
    "inserts of one UPDATE between BEGIN and COMMIT and rolls back on a failing row; the initial dump (persist_to_journal) goes "
    "through the same transactional writer; (T1) after the journal write update_records cannot fail on input shape: the RDATA "
    "forms pre_scan accepts for class-ANY deletes are exactly the ones update_records applies, and the only class values that "
    "reach update_records' FORMERR are the ones pre_scan rejects; (W1) only Journal::{insert_record, insert_records, schema "
    "functions} execute writing SQL.")
NOT_DECIDED = "SQLite's own durability; serial monotonicity on values; crash points inside a single SQLite statement."
ASSUMPTIONS = ["FULL feature configuration (sqlite + dnssec-ring)", "SQLite transaction semantics (BEGIN/COMMIT/ROLLBACK on one connection)"]

S = 'hickory_server::store::sqlite::SqliteZoneHandler::'
J = 'hickory_server::store::sqlite::persistence::Journal::'
RR = r"<Iter<'a;T> as Iterator>::next\(\^arg2\)@Some\.0"
MUT = r'InMemoryZoneHandler<P>::(upsert|records_mut|increment_soa_serial|clear)$|InMemoryZoneHandler::(upsert|records_mut|increment_soa_serial|clear)$|DnssecZoneHandler>::secure_zone$'


def variants_on(fn, rx_template):
    out = set()
    for bb in range(len(fn.blocks)):
        for s, ps in fn.edge_props(bb).items():
            for p in ps:
                m = re.match(rx_template, shorten(p))
                if m:
                    out |= set(m.group(1).split('|'))
    return out


def run(cx):
    prog = cx.prog
    u = cx.fn('C14.P1', S + 'update_records::{closure#0}')
    if u:
        jr = cx.calls(u, r'persistence::Journal::insert_records$')
        muts = cx.calls(u, MUT)
        # the write-ahead may be delegated to ONE private async helper that update_records awaits with (self, serial, records) and
        # `?`s: the helper is then held to the same clauses (journals exactly its arguments, Ok only when written or no journal
        # attached, ServFail otherwise) and every mutation is behind its Ok
        AW = r'await\(SqliteZoneHandler::(\w+)\(\^arg1,await\(InMemoryZoneHandler::serial\(\^arg1\.in_memory\)\)@Ready\.0,\^arg2\)\)'
        deleg = sorted({m_.group(1) for bb in range(len(u.blocks)) for ps in u.edge_props(bb).values() for p_ in ps
                        for m_ in [re.match(rf'^ok\({AW}@Ready\.0\)$', shorten(p_))] if m_}) if not jr else []
        h = prog.fns.get(S + deleg[0] + '::{closure#0}') if len(deleg) == 1 else None
        hj = cx.calls(h, r'persistence::Journal::insert_records$') if h is not None else []
        if h is not None and len(hj) == 1:
            cx.fn('C14.P1', h.path)
            cx.check('C14.P1', hj[0].term == 'Journal::insert_records(await(Mutex::lock(^arg1.journal))@Ready.0@Some.0,^arg2,^arg3)', h.path, hj[0].key(),
                     'journals-exactly-the-update-records', hj[0].term[:200], hj[0].loc)
            HOK = r'^ok\(Journal::insert_records\(.*\)\)$|^!ok\(await\(Mutex::lock\(\^arg1\.journal\)\)@Ready\.0\)$'
            cx.guard('C14.P1', cx.returns(h, r'^Result::Ok\('), {'journal-written-or-no-journal': HOK}, expect=1, fn=h)
            herr = [t_ for bb in range(len(h.blocks)) for t_, ps in h.edge_props(bb).items() if any(re.search(r'^!ok\(Journal::insert_records\(', shorten(p_)) for p_ in ps)]
            hreach = cx.reachable_from(h, herr) if herr else set()
            hret = [r_ for r_ in cx.returns(h, r'^Result::') if r_.bb in hreach]
            cx.check('C14.P1', len(herr) == 1 and len(hret) == 1 and hret[0].term == 'Result::Err(ResponseCode::ServFail)', h.path, 'edge', 'journal-error-returns-ServFail', '; '.join(r_.term for r_ in hret))
            cx.guard('C14.P1', muts, {'journal-written-or-no-journal': rf'^ok\({AW}@Ready\.0\)$'}, fn=u)
            uerr = [t_ for bb in range(len(u.blocks)) for t_, ps in u.edge_props(bb).items() if any(re.search(rf'^!ok\({AW}@Ready\.0\)$', shorten(p_)) for p_ in ps)]
            ureach = cx.reachable_from(u, uerr) if uerr else set()
            cx.check('C14.P1', len(uerr) == 1 and not [m for m in muts if m.bb in ureach] and not [r_ for r_ in cx.returns(u, r'^Result::Ok\(') if r_.bb in ureach],
                     u.path, 'edge', 'journal-error-mutates-nothing', '')
        else:
            cx.check('C14.P1', len(jr) == 1, u.path, 'calls', 'single-write-ahead-call', str(len(jr)))
        cx.floor('C14.P1', len(muts), 5, 'zone mutation calls in update_records')
        if jr:
            JOK = r'^ok\(Journal::insert_records\(.*\)\)$|^!ok\(await\(Mutex::lock\(\^arg1\.journal\)\)@Ready\.0\)$'
            cx.guard('C14.P1', muts, {'journal-written-or-no-journal': JOK}, fn=u)
            for s in jr:
                cx.check('C14.P1', bool(re.search(r'^Journal::insert_records\(await\(Mutex::lock\(\^arg1\.journal\)\)@Ready\.0@Some\.0,await\(InMemoryZoneHandler::serial\(\^arg1\.in_memory\)\)@Ready\.0,\^arg2\)$', s.term)),
                         u.path, s.key(), 'journals-exactly-the-update-records', s.term[:200], s.loc)
            # the Err edge of the journal write returns ServFail without any mutation
            err = [t for bb in range(len(u.blocks)) for t, ps in u.edge_props(bb).items() if any(re.search(r'^!ok\(Journal::insert_records\(', shorten(p)) for p in ps)]
            cx.check('C14.P1', len(err) == 1, u.path, 'edge', 'journal-error-edge', str(len(err)))
            if err:
                reach_ = cx.reachable_from(u, err)
                cx.check('C14.P1', not [m for m in muts if m.bb in reach_], u.path, 'edge', 'journal-error-mutates-nothing', '')
                sf = [s for s in cx.returns(u, r'^Result::Err\(ResponseCode::ServFail\)$') if s.bb in reach_]
                oth = [s for s in cx.returns(u, r'^Result::') if s.bb in reach_ and s.term != 'Result::Err(ResponseCode::ServFail)']
                cx.check('C14.P1', len(sf) == 1 and not oth, u.path, 'edge', 'journal-error-returns-ServFail', f'{len(sf)} ServFail, {len(oth)} other')
        # ------------------------------------------------------------ P2 SOA row
        soa = cx.calls(u, r'persistence::Journal::insert_record$')
        cx.check('C14.P2', len(soa) == 1, u.path, 'calls', 'post-update-soa-row', str(len(soa)))
        t = cx.returns(u, r'^Result::Ok\(true\)$')
        cx.guard('C14.P2', t, {'soa-row-written': r'^ok\(Journal::insert_record\('}, expect=1, fn=u)
        for s in soa:
            ok = bool(re.search(r'^Journal::insert_record\(.*,phi\(.*InMemoryZoneHandler::increment_soa_serial\(\^arg1\.in_memory\).*\),', s.term)) and 'RecordType::SOA' in s.term
            cx.check('C14.P2', ok, u.path, s.key(), 'soa-row=(new serial, apex SOA record)', s.term[:220], s.loc)
            cx.guard('C14.P2', [s], {'updated': r'^var\(\w+\)$', 'auto-increment': r'^\^arg3$'}, fn=u)
        ok_u = cx.returns(u, r'^Result::Ok\(var\(\w+\)\)$')
        cx.guard('C14.P2', ok_u, {'no-journal-attached': r'^!ok\(.*Mutex::lock\(\^arg1\.journal\).*\)$|^!ok\(Option::as_ref\('}, expect=1, fn=u)
        # ------------------------------------------------------------ T1 agreement with pre_scan
        p = cx.fn('C14.T1', S + 'pre_scan::{closure#0}')
        if p:
            acc_ps = {'Update0', 'NULL'} if all(re.search(r'\bNULL\b|\bUpdate0\b', '') is None for _ in [0]) else set()
            rej_ps = variants_on(p, rf'^in\({RR}\.data,(.*)\)$')
            rej_ur = variants_on(u, rf'^in\({RR}\.data,(.*)\)$')
            cx.check('C14.T1', rej_ps == rej_ur and len(rej_ps) > 10, u.path, 'table', 'class-ANY-rdata-forms-agree-with-prescan',
                     f'pre_scan rejects {len(rej_ps)} rdata variants, update_records FORMERRs on {len(rej_ur)}; difference: {sorted(rej_ps ^ rej_ur)}')
            cls_ps = variants_on(p, rf'^in\({RR}\.dns_class,(.*)\)$')
            cls_ur = variants_on(u, rf'^in\({RR}\.dns_class,(.*)\)$')
            cx.check('C14.T1', cls_ps == cls_ur and len(cls_ps) >= 3, u.path, 'table', 'class-values-agree-with-prescan', f'difference: {sorted(cls_ps ^ cls_ur)}')
            fe = cx.returns(u, r'^Result::Err\(ResponseCode::FormErr\)$')
            cx.check('C14.T1', len(fe) == 2, u.path, 'returns', 'input-shape-errors-after-journal-write', f'{len(fe)} FORMERR returns (each must be excluded by pre_scan)')
    # ---------------------------------------------------------------- G1 recovery
    r = cx.fn('C14.G1', S + 'recover_with_journal::{closure#0}')
    if r:
        ur = cx.calls(r, r'SqliteZoneHandler<P>::update_records$|SqliteZoneHandler::update_records$')
        cx.check('C14.G1', len(ur) == 1 and bool(re.search(r"^SqliteZoneHandler::update_records\(\^arg1,\[<JournalIter<'_> as Iterator>::next\(Journal::iter\(\^arg2\)\)@Some\.0\],false\)$", ur[0].term)),
                 r.path, 'call', 'replay(row,auto_increment=false)', ur[0].term if ur else 'none')
        cx.guard('C14.G1', ur, {'not-the-AXFR-marker': r"^!eq:RecordType\(RecordType::AXFR,Record::record_type\(<JournalIter<'_> as Iterator>::next\(Journal::iter\(\^arg2\)\)@Some\.0\)\)$",
                                'started-empty': r'^BTreeMap::is_empty\(InMemoryZoneHandler::records_get_mut\(\^arg1\.in_memory\)\)$'}, fn=r)
        clr = cx.calls(r, r'InMemoryZoneHandler<P>::clear$|InMemoryZoneHandler::clear$')
        cx.guard('C14.G1', clr, {'AXFR-marker': r"^eq:RecordType\(RecordType::AXFR,Record::record_type\("}, expect=1, fn=r)
        oks = cx.returns(r, r'^Result::Ok\(')
        cx.guard('C14.G1', oks, {'all-rows-replayed': r"^!ok\(<JournalIter<'_> as Iterator>::next\(Journal::iter\(\^arg2\)\)\)$"}, expect=1, fn=r)
        errs = cx.returns(r, r'^Result::Err\(PersistenceError::Recovery\(')
        cx.guard('C14.G1', errs, {'a-replay-failed': r'^!ok\(await\(SqliteZoneHandler::update_records\('}, expect=1, fn=r)
    c = cx.fn('C14.G1', S + 'try_from_config::{closure#0}')
    if c:
        rec = cx.calls(c, r'SqliteZoneHandler<P>::recover_with_journal$|SqliteZoneHandler::recover_with_journal$')
        cx.guard('C14.G1', rec, {'journal-exists': r'^Path::exists\(.*\)$'}, expect=1, fn=c)
        zf = cx.calls(c, r'zone_from_path$')
        pj = cx.calls(c, r'SqliteZoneHandler<P>::persist_to_journal$|SqliteZoneHandler::persist_to_journal$')
        sj = cx.calls(c, r'SqliteZoneHandler<P>::set_journal$|SqliteZoneHandler::set_journal$')
        cx.check('C14.G1', len(zf) == 1 and len(pj) == 1 and len(sj) == 2, c.path, 'calls', 'zone-file-path:load,attach,dump', f'zone_from_path={len(zf)} persist={len(pj)} set_journal={len(sj)}')
        if zf and pj and rec:
            # recovery runs only from a journal that exists AND was initialised (holds at least one row: a first start that stopped
            # before the initial dump committed leaves an empty journal - F24b); the zone file is loaded exactly otherwise
            JP = r'phi\(\^arg6\.journal_path\|file::rooted\(\^arg6\.journal_path,\^arg5\)\)'
            JE = 'Path::exists\\(' + JP + '\\)'
            ZE = r'Path::exists\(file::rooted\(\^arg6\.zone_path,\^arg5\)\)'
            ROW = r"ok\(<JournalIter<'_> as Iterator>::next\(Journal::iter\(try\(Result::map_err\(Journal::from_file\(" + JP + r"\),closure:.*\)\)@Continue\.0\)\)\)"
            # journal_initialised = journal exists && (no zone file || the journal has a first row), in any equivalent spelling:
            # the clauses are decided with cut sets over the value-sensitive reachability, not by the shape of the expression
            for nm, cl in (('journal-exists', [JE]), ('journal-initialised(has-a-row-or-no-zone-file)', ['!' + ZE, ROW])):
                cx.check('C14.G1', cx.crosses_any(c, rec[0], cl), c.path, rec[0].key(), 'missing-guard:' + nm,
                         'a path reaches the recovery without crossing one of ' + ' | '.join(x[:60] for x in cl), rec[0].loc)
            for nm, cl in (('zone-file-exists', [ZE]), ('journal-missing-or-a-zone-file', ['!' + JE, ZE]), ('journal-missing-or-empty', ['!' + JE, '!' + ROW])):
                cx.check('C14.G1', cx.crosses_any(c, zf[0], cl), c.path, zf[0].key(), 'missing-guard:' + nm,
                         'a path reaches the zone-file load without crossing one of ' + ' | '.join(x[:60] for x in cl), zf[0].loc)
            cx.must_pass('C14.G1', c, pj, via_blocks={s.bb for s in sj}, what='journal-attached-before-initial-dump')
            cx.must_pass('C14.G1', c, pj, via_blocks={zf[0].bb}, what='zone-loaded-before-initial-dump')
    # ---------------------------------------------------------------- P3 transaction bracket
    ir = cx.fn('C14.P3', J + 'insert_records')
    if ir:
        eb = cx.calls(ir, r'Connection::execute_batch$')
        begin = [s for s in eb if s.term.endswith('lit:"BEGIN")') or 'lit:"BEGIN' in s.term]
        commit = [s for s in eb if 'lit:"COMMIT' in s.term]
        rollback = [s for s in eb if 'lit:"ROLLBACK' in s.term]
        rows = cx.calls(ir, r'persistence::Journal::insert_record$')
        tfe = [s_ for s_ in cx.calls(ir, r'Iterator::try_for_each$') if re.search(r'^Iterator::try_for_each\(slice::iter\(arg3\),closure:', s_.term)]
        if not rows and len(tfe) == 1:
            # the row loop written as records.iter().try_for_each(|r| self.insert_record(serial, r)): first failing row stops it
            tc = [g for g in cx.closures_of(ir) if '@try_for_each#' in g.path]
            inner = [x for g in tc for x in cx.calls(g, r'persistence::Journal::insert_record$')]
            cx.check('C14.P3', len(begin) == 1 and len(commit) == 1 and len(inner) == 1 and bool(re.fullmatch(r'Journal::insert_record\(\^arg1,\^arg2,arg2\)', inner[0].term)),
                     ir.path, 'calls', 'rows-of-one-update-in-one-transaction(try_for_each)', f'BEGIN={len(begin)} COMMIT={len(commit)} row-inserts={len(inner)}')
            T = r'Iterator::try_for_each\(slice::iter\(arg3\),closure:[^)]*\)'
            cx.guard('C14.P3', tfe, {'inside-transaction': r'^ok\(Connection::execute_batch\(.*lit:"BEGIN"\)\)$'}, fn=ir)
            cx.guard('C14.P3', commit, {'all-rows-written': rf'^ok\({T}\)$'}, fn=ir)
            oks = cx.returns(ir, r'^Result::Ok\(')
            cx.guard('C14.P3', oks, {'committed': r'^ok\(Connection::execute_batch\(.*lit:"COMMIT"\)\)$'}, expect=1, fn=ir)
            errs = [s_ for s_ in cx.returns(ir, r'^Result::Err\(') if cx.has_guard(s_, rf'^!ok\({T}\)$')]
            cx.must_pass('C14.P3', ir, errs, via_blocks={s_.bb for s_ in rollback}, what='failing-row-rolls-back')
            cx.check('C14.P3', len(errs) == 1 and len(rollback) == 1, ir.path, 'ret', 'row-error-return', f'{len(errs)}/{len(rollback)}')
            allrets = cx.returns(ir, r'.')
            okish = [r_ for r_ in allrets if not r_.term.startswith('Result::Err(') and 'from_residual' not in r_.term]
            cx.must_pass('C14.P3', ir, okish, via_blocks={b_.bb for b_ in begin}, what='every-non-error-exit-went-through-BEGIN')
            begin = []
        else:
            cx.check('C14.P3', len(begin) == 1 and len(commit) == 1 and len(rows) >= 1, ir.path, 'calls', 'rows-of-one-update-in-one-transaction',
                     f'BEGIN={len(begin)} COMMIT={len(commit)} row-inserts={len(rows)}: without a transaction bracket each row is its own commit and a stop after row k leaves a half-written update', f'{ir.file}:{ir.line}')
        if begin and commit and rows:
            cx.guard('C14.P3', rows, {'inside-transaction': r'^ok\(Connection::execute_batch\(.*lit:"BEGIN"\)\)$'}, fn=ir)
            cx.guard('C14.P3', commit, {'all-rows-written': r"^!ok\(<Iter<'a;T> as Iterator>::next\(arg3\)\)$"}, fn=ir)
            oks = cx.returns(ir, r'^Result::Ok\(')
            cx.guard('C14.P3', oks, {'committed': r'^ok\(Connection::execute_batch\(.*lit:"COMMIT"\)\)$'}, expect=1, fn=ir)
            errs = [s for s in cx.returns(ir, r'^Result::Err\(') if cx.has_guard(s, r'^!ok\(Journal::insert_record\(')]
            cx.must_pass('C14.P3', ir, errs, via_blocks={s.bb for s in rollback}, what='failing-row-rolls-back')
            cx.check('C14.P3', len(errs) == 1 and len(rollback) == 1, ir.path, 'ret', 'row-error-return', f'{len(errs)}/{len(rollback)}')
            # ONE transaction for the whole batch: the batch is not cut into pieces that commit separately (no recursion, no
            # chunking), and every way out of the function with Ok went through BEGIN
            selfcalls = cx.calls(ir, r'persistence::Journal::insert_records$')
            pieces = cx.calls(ir, r'slice::<impl \[T\]>::(split_at|split_at_checked|chunks|chunks_exact|windows|split_first|split_last|split_off)$|slice::(split_at|split_at_checked|chunks|chunks_exact|windows|split_first|split_last)$')
            cx.check('C14.P3', not selfcalls and not pieces, ir.path, 'calls', 'batch-not-split-into-separately-committed-pieces',
                     '; '.join(x.label for x in selfcalls + pieces), (selfcalls + pieces)[0].loc if selfcalls + pieces else '')
            allrets = cx.returns(ir, r'.')
            okish = [r_ for r_ in allrets if not r_.term.startswith('Result::Err(') and 'from_residual' not in r_.term]
            cx.must_pass('C14.P3', ir, okish, via_blocks={b_.bb for b_ in begin}, what='every-non-error-exit-went-through-BEGIN')
    pj_ = cx.fn('C14.P3', S + 'persist_to_journal::{closure#0}')
    if pj_:
        single = cx.calls(pj_, r'persistence::Journal::insert_record$')
        batch = cx.calls(pj_, r'persistence::Journal::insert_records$')
        cx.check('C14.P3', not single and len(batch) == 1, pj_.path, 'calls', 'initial-dump-in-one-transaction',
                 f'{len(single)} per-row insert_record calls, {len(batch)} transactional insert_records calls: a stop during the initial dump leaves a partial journal that the next start prefers over the zone file',
                 single[0].loc if single else f'{pj_.file}:{pj_.line}')
    # ---------------------------------------------------------------- W1 who writes SQL
    writers_ = set()
    for g in prog.fns.values():
        if g.crate != 'hickory_server' or '::tests::' in g.path:
            continue
        for bi, c_, t in prog.calls_of(g):
            if any(re.search(r'^rusqlite::Connection::(execute|execute_batch)$|^rusqlite::statement::Statement::(execute|insert)$', n) for n in g.callee_names(c_)):
                writers_.add(g.path)
    allowed = {J + 'insert_record', J + 'insert_records', J + 'schema_up', J + 'init_up', J + 'records_up', J + 'update_schema_version', J + 'schema_down'}
    cx.check('C14.W1', writers_ <= allowed and J + 'insert_record' in writers_, J, 'writers', 'sql-writers', ', '.join(sorted(writers_ - allowed)) or f'{len(writers_)} as reviewed')

    # ---------------------------------------------------------------- W2 who mutates the zone map
    # recovery re-executes update_records over the journal rows; it reproduces the live zone only if nothing else changes the
    # set of RRsets that update_records sees (an "empty RRset clean-up" on the signing path makes live and replayed state diverge)
    ZMUT = re.compile(r"BTreeMap.*::(insert|remove|retain|clear|entry|get_mut|append|values_mut|iter_mut|extend|pop_first|pop_last|split_off|remove_entry|extract_if)$")
    ZONE_MAP_WRITERS = {
        'InMemoryZoneHandler::clear': {'clear'},                     # explicit API, not on the update path
        'InnerInMemory::increment_soa_serial': {'remove'},           # SOA taken out and re-inserted through upsert
        'InnerInMemory::nsec_zone': {'retain'},                      # drops and regenerates NSEC records (derived data)
        'InnerInMemory::nsec3_zone': {'retain'},                     # same for NSEC3 / NSEC3PARAM
        'InnerInMemory::sign_zone': {'values_mut'},                  # attaches RRSIGs to existing RRsets
        'InnerInMemory::upsert': {'entry'},                          # the one insertion point
        'SqliteZoneHandler::update_records::{closure#0}': {'retain', 'remove', 'get_mut'},   # RFC 2136 3.4.2 delete forms
    }
    seen = {}
    for p_, g in sorted(prog.fns.items()):
        if 'hickory_server::store' not in p_ or '::tests::' in p_:
            continue
        for bi, c, t in prog.calls_of(g):
            if 'op' in c:
                continue
            m = ZMUT.search(core.strip_generics(c.get("res") or c["def"]))
            if not m:
                continue
            tt = shorten(g.term_call(t, 0))
            if 'records' not in tt:
                continue
            key = shorten(p_ + '(')[:-1]
            seen.setdefault(key, set()).add(m.group(1))
            ok = m.group(1) in ZONE_MAP_WRITERS.get(key, ())
            cx.check('C14.W2', ok, p_, f'call:BTreeMap::{m.group(1)}', 'zone-map-mutated-only-at-reviewed-sites',
                     'the map of RRsets is changed outside the reviewed writers: journal replay does not re-execute this, so the recovered zone can differ from the live one', g.loc(bi),
                     sample={'fn': key, 'op': m.group(1), 'holds': ok})
    cx.floor('C14.W2', len(seen), 6, 'functions that mutate the zone map')

    # ---------------------------------------------------------------- P4 schema steps are transactions (F24a)
    # "recovery never fails on a journal the server itself wrote": a schema step (DDL) and the version row that records it must
    # become visible together, or a stop between them leaves a journal that the next start cannot migrate
    # ---------------------------------------------------------------- P5 every open of a journal file resumes the schema migration
    # schema_up is a resumable loop (one transaction per step, P4): a first start that stopped between two steps leaves a journal
    # the server itself wrote at an intermediate version.  Journal::from_file - the only constructor the zone handler uses for a
    # file - hands out a journal only after schema_up succeeded, on every open, not only for a file without a schema
    ff = cx.fn('C14.P5', J + 'from_file')
    if ff:
        cx.guard('C14.P5', cx.returns(ff, r'^Result::Ok\('), {'schema-brought-up-on-every-open': r'^ok\(Journal::schema_up\('}, expect=1, fn=ff)
        opener = sorted({p_ for p_, g_ in prog.fns.items() if '::tests::' not in p_ and g_.crate == 'hickory_server' and p_ != J + 'from_file'
                         for bi_, c_, t_ in prog.calls_of(g_) if any(n_.endswith('persistence::Journal::new') for n_ in g_.callee_names(c_))})
        cx.check('C14.P5', not opener, J + 'new', 'callers', 'journal-built-only-through-from_file', ', '.join(opener))
    su = cx.fn('C14.P4', J + 'schema_up')
    if su:
        eb = cx.calls(su, r'Connection::execute_batch$')
        begin = [s_ for s_ in eb if s_.term.endswith('lit:"BEGIN")')]
        commit = [s_ for s_ in eb if s_.term.endswith('lit:"COMMIT")')]
        rollback = [s_ for s_ in eb if s_.term.endswith('lit:"ROLLBACK")')]
        steps = cx.calls(su, r'Journal::(init_up|records_up)$')
        cx.check('C14.P4', len(begin) == 1 and len(commit) == 1 and len(rollback) >= 1 and len(steps) >= 2, su.path, 'calls', 'BEGIN/COMMIT/ROLLBACK-around-schema-steps',
                 f'begin={len(begin)} commit={len(commit)} rollback={len(rollback)} steps={len(steps)}')
        if len(begin) == 1 and len(commit) == 1:
            cx.must_pass('C14.P4', su, steps, via_blocks={begin[0].bb}, what='schema-step-inside-a-transaction')
            ver = [g for g in [su] + prog.find(r'Journal::schema_up::\{closure[^}]*\}$') for _ in cx.calls(g, r'Journal::update_schema_version$')]
            cx.check('C14.P4', len(ver) == 1, su.path, 'calls', 'version-row-updated-once-per-step', str(len(ver)))
            # the version update happens after the step and before COMMIT: it is chained on the step's result (and_then) or
            # called between the step and the commit
            chained = [s_ for s_ in cx.calls(su, r'Result<T, E>::and_then$|Result::and_then$') if re.search(r'^Result::and_then\(phi\(.*Journal::(records_up|init_up)\(arg1\).*\),closure:Journal::schema_up::', s_.term)]
            direct = cx.calls(su, r'Journal::update_schema_version$')
            via = chained or direct
            cx.check('C14.P4', bool(via), su.path, 'calls', 'version-update-follows-the-step', '')
            if via:
                cx.must_pass('C14.P4', su, commit, via_blocks={via[0].bb}, what='version-row-updated-before-COMMIT')
                cx.must_pass('C14.P4', su, [via[0]], via_blocks={s_.bb for s_ in steps}, start_blocks=[b for b in su.succs(begin[0].bb) if not su.blocks[b]['cleanup']], what='step-runs-before-its-version-update')
            vs = cx.assigns(su, r'.', place=r'version$')
            cx.check('C14.P4', len(vs) >= 1, su.path, 'stores', 'in-memory-version-store-present', str(len(vs)))
            cx.must_pass('C14.P4', su, vs, via_blocks={commit[0].bb}, what='in-memory-version-advances-only-after-COMMIT')

    # ---------------------------------------------------------------- N1 argument names agree with the parameters they are bound to (engine/argnames.py)
    argnames.check(cx, 'C14.N1', r'hickory_server::store::sqlite', floor=20)
    argnames.check_fields(cx, 'C14.N1', r'hickory_server::store::sqlite', floor=3)


"""C13 — updates and signed-only transfers require a valid, timely TSIG: guard sets of
verify_message_byte / authorized_tsig / authorize_update / authorize_axfr, TSIG-last rule, update ordering, reply signing."""
import re
import argnames
from api import shorten, Site, writers

EXPLANATION = (
    "GUARD/PATH rules (feature-full build; the baseline never compiles this code): (G1) TSigner::verify_message_byte returns Ok only "
    "if the TSIG owner equals the configured key name and the algorithm matches, the MAC is not shorter than the algorithm output "
    "(no truncated MACs), and verify(tbv, mac) succeeded, with tbv/record from signed_bitmessage_to_buf over the raw message; the "
    "returned window is [time-fudge, time+fudge]; (G2) authorized_tsig yields Ok(()) only if a signer with the TSIG's key name was "
    "found, verify_message_byte over the raw request bytes succeeded and Range::contains(window, now); every failure is NotAuth; "
    "(G3) authorize_update is Ok only with allow_update, a signature present and G2; authorize_axfr: Deny refuses, AllowSigned "
    "needs a signature and G2; the zone is updated / transferred only through the Ok edge (update: authorise -> prerequisites -> "
    "prescan -> apply, in that order; zone_transfer: policy check before in_memory.zone_transfer); (G4) Message::read_records "
    "rejects any record after a TSIG and TSIG/SIG/OPT outside the additional section; (P2) in Catalog::update a TSIG context "
    "returned by the handler leads to response.set_signature(signer.sign(encoded response)) or a SERVFAIL, never an unsigned "
    "success; TSigResponseContext::sign MACs request MAC + response + TSIG variables for the Signed kind and leaves BadSig/BadKey "
    "unsigned; (Q1) the MAC input of TSIG::emit_tsig_for_mac is the RFC 8945 4.3.3 field sequence; (client side) DnsMultiplexer delivers "
    "a response unverified only when the request's STORED verifier is None, verifies with the stored (chained) verifier in place and "
    "never moves it out or overwrites it while the request is active, and stores the verifier Message::finalize returned; (G5) "
    "TSigVerifier::verify returns the parsed response only under MAC verified over the received bytes with the chained previous MAC, time "
    "not older than the last accepted one and request time within the fudge window, advancing the chain state on that path only; (P2, "
    "cont.) the copy of the reply that is MAC-ed is built like the reply that is sent: same builder inputs, same header constructor and "
    "arguments, same rcode, no other header field set on one copy only.")
NOT_DECIDED = "HMAC itself; that one flipped bit changes tbv (follows only for octets shown to be inputs); the order in which a multi-message reply arrives (the client verifies whatever arrives, in arrival order, with the stored chained verifier - G4)."
ASSUMPTIONS = ["FULL feature configuration (sqlite + dnssec-ring)", "Range<u64>::contains semantics"]

S = 'hickory_server::store::sqlite::SqliteZoneHandler::'
FIND = r"<Iter<'a;T> as Iterator>::find\(slice::iter\(\^arg1\.tsig_signers\),closure:SqliteZoneHandler::authorized_tsig::\{closure#0\}::\{closure@find#0\}\)"
VMB = rf'TSigner::verify_message_byte\({FIND}@Some\.0,Request::as_slice\(\^arg3\),Option::None,true\)'
SB = r'try\(tsig::signed_bitmessage_to_buf\(arg2,arg3,arg4\)\)@Continue\.0'


def run(cx):
    # ---------------------------------------------------------------- G1
    f = cx.fn('C13.G1', 'hickory_proto::rr::tsig::TSigner::verify_message_byte')
    if f:
        oks = cx.returns(f, r'^Result::Ok\(')
        cx.guard('C13.G1', oks, {
            'key-name-equal': rf'^eq:Name\(arg1\.0\.signer_name,{SB}\.1\.name\)$',
            'algorithm-equal': rf'^eq:TsigAlgorithm\(arg1\.0\.algorithm,{SB}\.1\.data\.algorithm\)$',
            'mac-not-truncated': rf'^le\(try\(TsigAlgorithm::output_len\({SB}\.1\.data\.algorithm\)\)@Continue\.0,Vec::len\({SB}\.1\.data\.mac\)\)$',
            'mac-verifies-over-raw-message': rf'^ok\(TSigner::verify\(arg1,{SB}\.0,{SB}\.1\.data\.mac\)\)$',
        }, expect=1, fn=f)
        for s in oks:
            ok = bool(re.search(rf'Range\(subwithoverflow\({SB}\.1\.data\.time,cast<u64>\({SB}\.1\.data\.fudge\)\)\.0,addwithoverflow\({SB}\.1\.data\.time,cast<u64>\({SB}\.1\.data\.fudge\)\)\.0\)\)\)$', s.term))
            cx.check('C13.G1', ok, f.path, s.key(), 'window-is-time±fudge', s.term[-260:], s.loc)
    # ---------------------------------------------------------------- G2
    f = cx.fn('C13.G2', S + 'authorized_tsig::{closure#0}')
    if f:
        okset = cx.assigns(f, r'^Result::Ok\(\(\)\)$', place=None)
        errset = cx.assigns(f, r'^Result::Err\(ResponseCode::NotAuth\)$', place=None)
        rets = cx.returns(f, r'^\(')
        good = [s for s in rets if 'Result::Ok(())' in s.term]
        cx.check('C13.G2', len(good) == 1 and len(okset) >= 1, f.path, 'returns', 'single-ok-capable-return', f'{len(good)} returns may carry Ok, {len(okset)} Ok stores')
        cx.guard('C13.G2', good, {'key-found-by-name': rf'^ok\({FIND}\)$', 'mac-verified-over-raw-request': rf'^ok\({VMB}\)$'}, fn=f)
        # from the Ok store, the return is reached only through Range::contains(window, now) (else the Err store overwrites it)
        TIME = rf'^Range::contains\({VMB}@Ok\.0\.2,\^arg4\)$'
        for o in okset:
            if cx.has_guard(o, TIME):
                # the Ok value is only built inside the window
                cx.oblige('C13.G2', True, sample={'fn': shorten(f.path), 'site': o.key(), 'loc': o.loc, 'guard': 'now-within-window', 'holds': True})
                continue
            cx.must_pass('C13.G2', f, good, via_blocks={e.bb for e in errset}, via_edge=TIME, start_blocks=[o.bb], what='now-within-window-or-NotAuth')
        bad = [s for s in rets if s not in good]
        for s in bad:
            cx.check('C13.G2', s.term.startswith('(Result::Err(ResponseCode::NotAuth),'), f.path, s.key(), 'failure-is-NotAuth', s.term[:80], s.loc)
        cx.check('C13.G2', len(bad) == 2, f.path, 'returns', 'failure-returns', str(len(bad)))
    c = cx.fn('C13.G2', S + 'authorized_tsig::{closure#0}::{closure@find#0}')
    if c:
        t = cx.true_returns(c)
        cx.check('C13.G2', len(t) == 1 and bool(re.search(r'^eq:Name\(TSigner::signer_name\(arg2\),\^+arg2\.name\)$|^eq:Name\(\^+arg2\.name,TSigner::signer_name\(arg2\)\)$', t[0].term)),
                 c.path, 'ret', 'signer-selected-by-key-name', '; '.join(s.term for s in t))
    # ---------------------------------------------------------------- G3
    AT = r'await\(SqliteZoneHandler::authorized_tsig\(\^arg1,<MessageRequest as UpdateRequest>::signature\(\^arg2\)@Some\.0,\^arg2,\^arg3\)\)@Ready\.0'
    f = cx.fn('C13.G3', S + 'authorize_update::{closure#0}')
    if f:
        rets = cx.returns(f, r'^\(')
        can_ok = [s for s in rets if not s.term.startswith('(Result::Err(')]
        cx.guard('C13.G3', can_ok, {'updates-allowed': r'^\^arg1\.allow_update$', 'request-signed': r'^ok\(<MessageRequest as UpdateRequest>::signature\(\^arg2\)\)$'}, expect=1, fn=f)
        for s in can_ok:
            cx.check('C13.G3', bool(re.search(rf'^\({AT}\.0,Option::Some\({AT}\.1\)\)$', s.term)), f.path, s.key(), 'verdict-is-authorized_tsig', s.term[:200], s.loc)
        cx.check('C13.G3', len(rets) == 3, f.path, 'returns', 'return-count', str(len(rets)))
    f = cx.fn('C13.G3', S + 'authorize_axfr::{closure#0}')
    if f:
        rets = cx.returns(f, r'^\(')
        okc = [s for s in rets if s.term.startswith('(Result::Ok(())')]
        cx.guard('C13.G3', okc, {'policy-AllowAll': r'^is\(\^arg1\.axfr_policy,AllowAll\)$'}, expect=1, fn=f)
        signed = [s for s in rets if 'authorized_tsig' in s.term]
        cx.guard('C13.G3', signed, {'policy-AllowSigned': r'^is\(\^arg1\.axfr_policy,AllowSigned\)$', 'request-signed': r'^ok\(<MessageRequest as UpdateRequest>::signature\(\^arg2\)\)$'}, expect=1, fn=f)
        for s in signed:
            cx.check('C13.G3', bool(re.search(rf'^\({AT}\.0,Option::Some\({AT}\.1\)\)$', s.term)), f.path, s.key(), 'verdict-is-authorized_tsig', s.term[:200], s.loc)
        ref = [s for s in rets if s.term.startswith('(Result::Err(ResponseCode::Refused)')]
        cx.check('C13.G3', len(ref) == 2 and len(rets) == 4, f.path, 'returns', 'refusals', f'{len(ref)} of {len(rets)}')
    U = '<hickory_server::store::sqlite::SqliteZoneHandler<P> as hickory_server::zone_handler::ZoneHandler>::'
    f = cx.fn('C13.G3', U + 'update::{closure@pin#0}')
    if f:
        AU = r'await\(SqliteZoneHandler::authorize_update\(\^arg1,\^arg2,\^arg3\)\)@Ready\.0\.0'
        PR = r'await\(SqliteZoneHandler::verify_prerequisites\(\^arg1,<MessageRequest as UpdateRequest>::prerequisites\(\^arg2\)\)\)@Ready\.0'
        PS = r'await\(SqliteZoneHandler::pre_scan\(\^arg1,<MessageRequest as UpdateRequest>::updates\(\^arg2\)\)\)@Ready\.0'
        ur = cx.calls(f, r'SqliteZoneHandler<P>::update_records$|SqliteZoneHandler::update_records$')
        cx.guard('C13.G3', ur, {'authorised': rf'^ok\({AU}\)$', 'prerequisites-hold': rf'^ok\({PR}\)$', 'prescan-passed': rf'^ok\({PS}\)$'}, expect=1, fn=f)
        for s in ur:
            cx.check('C13.G3', s.term == 'SqliteZoneHandler::update_records(^arg1,<MessageRequest as UpdateRequest>::updates(^arg2),true)', f.path, s.key(), 'applies-the-request-updates', s.term, s.loc)
        ps = cx.calls(f, r'SqliteZoneHandler<P>::pre_scan$|SqliteZoneHandler::pre_scan$')
        cx.guard('C13.G3', ps, {'authorised': rf'^ok\({AU}\)$', 'prerequisites-hold': rf'^ok\({PR}\)$'}, expect=1, fn=f)
        pr = cx.calls(f, r'SqliteZoneHandler<P>::verify_prerequisites$|SqliteZoneHandler::verify_prerequisites$')
        cx.guard('C13.G3', pr, {'authorised': rf'^ok\({AU}\)$'}, expect=1, fn=f)
        # nothing else in update() can touch the zone
        other = [s for s in cx.calls(f, r'SqliteZoneHandler') if not re.search(r'::(authorize_update|verify_prerequisites|pre_scan|update_records)(::\{closure#0\})?$', s.label)]
        cx.check('C13.G3', not other, f.path, 'calls', 'no-other-handler-calls', '; '.join(s.label for s in other))
    f = cx.fn('C13.G3', U + 'zone_transfer::{closure@pin#0}')
    if f:
        zt = cx.calls(f, r'InMemoryZoneHandler<P> as .*ZoneHandler>::zone_transfer$')
        cx.guard('C13.G3', zt, {'policy-ok': r'^ok\(await\(SqliteZoneHandler::authorize_axfr\(\^arg1,\^arg2,\^arg4\)\)@Ready\.0\.0\)$'}, expect=1, fn=f)
    f = cx.fn('C13.G3', U + 'search::{closure@pin#0}')
    if f:
        sr = cx.calls(f, r'InMemoryZoneHandler<P> as .*ZoneHandler>::search$')
        cx.guard('C13.G3', sr, {'not-AXFR': r'^!eq:RecordType\(RecordType::AXFR,LowerQuery::query_type\(Request::request_info\(\^arg2\)\.query\)\)$'}, expect=1, fn=f)
    # ---------------------------------------------------------------- G4 TSIG last
    f = cx.fn('C13.G4', 'hickory_proto::op::message::Message::read_records')
    if f:
        pushes = cx.calls(f, r'Vec<T, A>::push$|Vec::push$')
        sigset = cx.assigns(f, r'^Option::Some\(Box::new\(|^Option::Some\(', place=None)
        sigset = [s for s in sigset if 'TSIG' in s.term or 'Record::map' in s.term]
        edns = [s for s in cx.assigns(f, r'^Option::Some\(', place=None) if 'Edns' in s.term or 'into<Edns>' in s.term]
        NOSIG = r'^!ok\(var\(\w+\)\)$|^!ok\(phi\(Option::None\|Option::Some\(.*\)\)\)$'
        cx.guard('C13.G4', pushes + sigset + edns, {'no-record-after-signature': NOSIG}, fn=f)
        cx.floor('C13.G4', len(pushes), 3, 'record pushes in read_records')
        cx.check('C13.G4', len(sigset) >= 1, f.path, 'sites', 'signature-capture-present', str(len(sigset)))
        cx.guard('C13.G4', sigset, {'additional-section-only': r'^arg3$'}, fn=f)
        ras = cx.returns(f, r'DecodeError::RecordAfterSig')
        cx.check('C13.G4', len(ras) == 1, f.path, 'ret', 'RecordAfterSig-present', str(len(ras)))
    # ---------------------------------------------------------------- P2 signed reply
    f = cx.fn('C13.P2', 'hickory_server::zone_handler::catalog::Catalog::update::{closure#0}')
    if f:
        snd = [s for s in cx.calls(f, r'ResponseHandler::send_response$')]
        sg = cx.calls(f, r'TSigResponseContext::sign$')
        ss = cx.calls(f, r'MessageResponse<.*>::set_signature$|MessageResponse::set_signature$')
        cx.check('C13.P2', len(snd) == 1 and len(sg) == 1 and len(ss) == 1, f.path, 'calls', 'send/sign/set_signature', f'{len(snd)}/{len(sg)}/{len(ss)}')
        if snd and ss and sg:
            # with a signer present, send is reached only through set_signature (sign Ok); sign Err / encode Err go to send_error_response(ServFail)
            HAS = [s for bb in range(len(f.blocks)) for s, ps in f.edge_props(bb).items() if any(re.search(r'^ok\(.*@Ready\.0\.1\)$|^ok\(var\(\w+\)\)$|^ok\(phi\(.*\)\)$', shorten(p)) and 'update' in shorten(p) or re.search(r'^ok\(var\(\w+\)\)$', shorten(p)) for p in ps)]
            sgb = {x.bb for x in sg}
            cx.must_pass('C13.P2', f, snd, via_blocks={x.bb for x in ss}, start_blocks=list(sgb), what='signed-before-send')
            cx.guard('C13.P2', ss, {'sign-ok': r'^ok\(TSigResponseContext::sign\('}, fn=f)
            for s in ss:
                cx.check('C13.P2', bool(re.search(r'set_signature\(.*,TSigResponseContext::sign\(.*\)@Ok\.0\)$', s.term)), f.path, s.key(), 'signature-is-sign-result', s.term[-160:], s.loc)
            for s in sg:
                cx.check('C13.P2', bool(re.search(r'^TSigResponseContext::sign\(.*,Vec::with_capacity\(512\)\)$', s.term)), f.path, s.key(), 'signs-the-encoded-response-buffer', s.term[-120:], s.loc)
            # the MAC is computed over a SECOND encoding of the reply (tbs_response): it verifies at the client only if that copy is
            # the reply that is sent - same builder inputs, same header constructor with the same arguments, same response code
            bn = cx.calls(f, r'MessageResponseBuilder<.*>::build_no_records$|MessageResponseBuilder::build_no_records$')
            cx.check('C13.P2', len(bn) == 2 and bn[0].term == bn[1].term, f.path, 'calls', 'signed-copy-built-like-the-sent-reply', '; '.join(x.term[:120] for x in bn))
            mk = [x for x in cx.calls(f, r'Metadata::\w+$') if not x.label.endswith('::fields') and 'Callsite' not in x.term]
            cx.check('C13.P2', len(mk) == 2 and mk[0].term == mk[1].term and mk[0].label == mk[1].label, f.path, 'calls', 'signed-header=sent-header(same constructor, same arguments)',
                     '; '.join(f'{x.label}: {x.term[:100]}' for x in mk), mk[0].loc if mk else '')
            rc = [shorten(f.term_operand(f.blocks[w[1]]['s'][w[2]][2][1])) for w in writers(cx.prog, r'Metadata$', r'^response_code$') if w[0] is f and w[4] == 'store' and w[2] is not None]
            cx.check('C13.P2', len(rc) == 2 and rc[0] == rc[1], f.path, 'stores', 'signed-rcode=sent-rcode', f'{len(rc)} stores')
            other = [w[3] for w in writers(cx.prog, r'op::(header|message)::Metadata$|Metadata$', None) if w[0] is f and w[4] in ('store', 'mutref') and not w[3].endswith('.response_code')]
            cx.check('C13.P2', not other, f.path, 'stores', 'no-other-header-field-set-on-one-copy-only', ', '.join(other))
            sf = [s for s in cx.calls(f, r'catalog::send_error_response$') if 'ResponseCode::ServFail' in s.term and cx.has_guard(s, r'^!ok\(TSigResponseContext::sign\(')]
            cx.check('C13.P2', len(sf) == 1, f.path, 'calls', 'sign-failure-is-ServFail', str(len(sf)))
    g = cx.fn('C13.P2', 'hickory_proto::rr::tsig::TSigResponseContext::sign')
    if g:
        mac = cx.calls(g, r'TSigner::sign$')
        cx.guard('C13.P2', mac, {'kind-Signed': r'^is\(arg1\.kind,Signed\)$'}, expect=1, fn=g)
        tbs = cx.calls(g, r'TSigner::encode_response_tbs$')
        cx.check('C13.P2', len(tbs) == 1 and bool(re.search(r'^TSigner::encode_response_tbs\(arg1\.kind@Signed\.signer,arg1\.kind@Signed\.request_mac,arg2,', tbs[0].term)), g.path, 'call', 'tbs=request-mac+response+tsig-vars', tbs[0].term[:200] if tbs else 'none')
        for s in mac:
            cx.check('C13.P2', 'TSigner::encode_response_tbs(' in s.term, g.path, s.key(), 'mac-over-tbs', s.term[:160], s.loc)

    # ---------------------------------------------------------------- Q1 what the MAC covers (RFC 8945 4.3.3 "TSIG Variables")
    # NAME, CLASS, TTL, Algorithm Name, Time Signed, Fudge, Error, Other Len, Other Data - in this order; a field left out of the
    # MAC input can be rewritten on the wire without invalidating the signature (the fudge widens the acceptance window)
    mf = cx.fn('C13.Q1', 'hickory_proto::rr::rdata::tsig::TSIG::emit_tsig_for_mac')
    if mf:
        def tokens(g, self_arg, depth=0):
            out = []
            calls = [s_ for s_ in cx.calls(g, r'.') if re.search(r'BinEncodable>::emit$|BinEncoder<.*>::emit_\w+$|BinEncoder::emit_\w+$|TSIG::\w+$', s_.label) and 'with_name_encoding' not in s_.label]
            order = sorted(calls, key=lambda s_: (len([1 for o in calls if o.bb != s_.bb and s_.bb in cx.reachable_from(g, [o.bb])]), s_.bb))
            for s_ in order:
                t_ = s_.term
                m_ = re.match(r'^TSIG::(\w+)\(' + self_arg + r'[,)]', t_)
                if m_ and depth < 2:
                    h = cx.prog.fn('hickory_proto::rr::rdata::tsig::TSIG::' + m_.group(1))
                    if h and h.path != g.path:
                        out += tokens(h, 'arg1', depth + 1)
                    continue
                first = core.split_args(t_[t_.index('(') + 1:-1])[0] if '(' in t_ else ''
                if t_.startswith('BinEncoder::emit_'):
                    first = core.split_args(t_[t_.index('(') + 1:-1])[-1]
                for name, rx in (('name', r'^arg3$'), ('class', r'^DNSClass::ANY$'), ('ttl', r'^0$'), ('algorithm', r'\.algorithm$'), ('time', r'\.time\b'),
                                 ('fudge', r'\.fudge$'), ('error', r'\.error\b'), ('other-len', r'Vec::len\(' + self_arg + r'\.other\)'), ('other', r'\.other$')):
                    if re.search(rx, first):
                        if not out or out[-1] != name:
                            out.append(name)
                        break
                else:
                    out.append('?' + first[:30])
            return out
        import core
        seq = tokens(mf, 'arg1')
        want = ['name', 'class', 'ttl', 'algorithm', 'time', 'fudge', 'error', 'other-len', 'other']
        cx.check('C13.Q1', seq == want, mf.path, 'emits', 'mac-input=RFC8945-4.3.3-TSIG-variables-in-order', 'emitted: ' + ','.join(seq), f'{mf.file}:{mf.line}',
                 sample={'fn': 'TSIG::emit_tsig_for_mac', 'fields': seq, 'holds': seq == want})
        low = cx.calls(mf, r'BinEncoder<.*>::with_name_encoding$|BinEncoder::with_name_encoding$')
        cx.check('C13.Q1', len(low) == 1 and low[0].term.endswith('NameEncoding::UncompressedLowercase)'), mf.path, 'calls', 'names-in-canonical-wire-format', '; '.join(x.term[-60:] for x in low))

    # ---------------------------------------------------------------- G4 client side: every message of a signed exchange is verified
    # DnsMultiplexer keeps the TSigVerifier of a signed request in ActiveRequest.verifier for as long as the request is active
    # (a zone transfer answers with many messages under one id; RFC 8945 5.3.1 chains their MACs).  A response is handed to the
    # requester unverified only when the STORED verifier is None, and the verified arm uses the stored verifier in place -
    # `take()`ing it out verifies the first message and waves every later one through.
    mp = cx.fn('C13.G4', r'<hickory_net::xfer::dns_multiplexer::DnsMultiplexer<S> as futures_core::stream::Stream>::poll_next')
    if mp:
        ENT = r'OccupiedEntry::get_mut\(HashMap::entry\(arg1\.active_requests,.*\)@Occupied\.0\)'
        sends = cx.calls(mp, r'Sender<.*>::try_send$|Sender::try_send$')
        raw = [s_ for s_ in sends if re.search(r',Result::Ok\(', s_.term)]
        ver = [s_ for s_ in sends if s_ not in raw]
        cx.guard('C13.G4', raw, {'stored-verifier-is-None': rf'^!ok\({ENT}\.verifier\)$'}, expect=1, fn=mp)
        for s_ in ver:
            ok = bool(re.search(rf',Result::map_err\(TSigVerifier::verify\({ENT}\.verifier@Some\.0,DnsResponse::as_buffer\(', s_.term))
            cx.check('C13.G4', ok, mp.path, s_.key(), 'signed-exchange-delivers-verify(stored verifier, received bytes)', s_.term[-260:], s_.loc)
        cx.floor('C13.G4', len(ver), 1, 'verified deliveries in DnsMultiplexer::poll_next')
        # nothing but verify() takes the verifier mutably; the field is written only when the request is created
        others = []
        for g in cx.prog.fns.values():
            if not g.path.startswith('hickory_net::') and not g.path.startswith('<hickory_net::') or '::tests::' in g.path:
                continue
            for s_ in cx.calls(g, r'.'):
                if re.search(r'^(Option::(take|replace|insert|get_or_insert\w*|take_if)|mem::(take|replace|swap))$', s_.label) and \
                        re.search(r'active_requests.*\.verifier\b', s_.term):
                    others.append(f'{g.path}: {s_.term[:100]}')
        cx.check('C13.G4', not others, mp.path, 'verifier-field', 'stored-verifier-never-moved-out', '; '.join(others))
        ws = {w[0].path for w in writers(cx.prog, r'^hickory_net::xfer::dns_multiplexer::ActiveRequest$', r'^verifier$') if w[4] == 'store'}
        cx.check('C13.G4', not ws, mp.path, 'verifier-field', 'stored-verifier-never-overwritten', ', '.join(sorted(ws)))
    sm = cx.fn('C13.G4', r'<hickory_net::xfer::dns_multiplexer::DnsMultiplexer<S> as hickory_net::xfer::DnsRequestSender>::send_message')
    if sm:
        nw = cx.calls(sm, r'ActiveRequest::new$')
        ok = len(nw) == 1 and bool(re.search(r',phi\(Option::None\|Message::finalize\(var\(\w+\),arg1\.signer@Some\.0,Time::current_time\(\)\)@Ok\.0\)\)$', nw[0].term))
        cx.check('C13.G4', ok, sm.path, 'call:ActiveRequest::new', 'verifier-stored=the-one-finalize-returned-for-this-request', nw[0].term[-200:] if nw else 'none')

    # ---------------------------------------------------------------- G5 client side: what TSigVerifier::verify accepts (RFC 8945 5.3, 5.3.1)
    # a response is handed back only if verify_message_byte over THE RECEIVED BYTES succeeded with the previous MAC of this exchange
    # as prefix (request MAC for the first message, the preceding response's MAC afterwards), its time is not older than the last
    # accepted one and the request time lies in [time-fudge, time+fudge]; what is parsed is the verified byte string; the chain state
    # (previous_signature, remote_time) advances on that path only
    tv = cx.fn('C13.G5', 'hickory_proto::rr::tsig::TSigVerifier::verify')
    if tv:
        VMB5 = r'TSigner::verify_message_byte\(arg1\.signer,arg2,Option::Some\(arg1\.previous_signature\),eq\(0,arg1\.remote_time\)\)'
        RES = rf'try\(Result::map_err\({VMB5},closure:TSigVerifier::verify::\{{closure@map_err#0\}}\)\)@Continue\.0'
        acc = [s for s in cx.returns(tv, r'.') if not re.search(r'^Result::Err\(|from_residual\(', s.term)]
        cx.guard('C13.G5', acc, {
            'mac-verified-over-received-bytes-with-chained-prefix': rf'^ok\(Result::map_err\({VMB5},closure:[^)]*\)\)$',
            'time-not-older-than-last-accepted': rf'^le\(arg1\.remote_time,{RES}\.1\)$',
            'request-time-within-fudge-window': rf'^Range::contains\({RES}\.2,arg1\.request_time\)$'}, expect=1, fn=tv)
        for s in acc:
            cx.check('C13.G5', s.term == 'DnsResponse::from_buffer(slice::to_vec(arg2))', tv.path, s.key(), 'parsed-bytes=verified-bytes', s.term[:160], s.loc)
        st = [w for w in writers(cx.prog, r'^hickory_proto::rr::tsig::TSigVerifier$', None) if w[4] == 'store']
        bad = sorted({w[0].path for w in st} - {tv.path})
        cx.check('C13.G5', not bad, tv.path, 'writers', 'chain-state-written-only-by-verify', ', '.join(bad))
        by = {}
        for w in st:
            if w[0] is tv:
                v = shorten(tv.term_operand(tv.blocks[w[1]]['s'][w[2]][2][1]))
                by.setdefault(w[3].rsplit('.', 1)[-1], []).append((w[1], v))
        cx.check('C13.G5', set(by) == {'previous_signature', 'remote_time'}, tv.path, 'writers', 'chain-state=previous-MAC+last-time', ', '.join(sorted(by)))
        for fld, idx in (('previous_signature', 0), ('remote_time', 1)):
            for bi, v in by.get(fld, []):
                cx.check('C13.G5', bool(re.fullmatch(RES + rf'\.{idx}', v)), tv.path, 'store:' + fld, 'chain-state-takes-the-value-just-verified', v[:160], tv.loc(bi))
        if acc and by:
            cx.must_pass('C13.G5', tv, acc, via_blocks={bi for vs in by.values() for bi, _ in vs if True} and {bi for bi, _ in by.get('remote_time', [])}, what='accept=>time-advanced')
            cx.must_pass('C13.G5', tv, acc, via_blocks={bi for bi, _ in by.get('previous_signature', [])}, what='accept=>previous-MAC-advanced')
    sg = cx.fn('C13.G5', 'hickory_proto::rr::tsig::TSigner::sign_message')
    if sg:
        cons = cx.constructions(sg, 'hickory_proto::rr::tsig::TSigVerifier')
        cx.check('C13.G5', len(cons) == 1, sg.path, 'construct', 'single-verifier-construction', str(len(cons)))
        want = {'signer': r'^arg1$', 'remote_time': r'^0$', 'request_time': r'^arg3$',
                'previous_signature': r'^try\(Result::map_err\(TSigner::sign\(arg1,try\(tsig::message_tbs\(arg2,TSIG::stub\(arg2\.id,arg3,arg1\),arg1\.0\.signer_name\)\)@Continue\.0\),closure:[^)]*\)\)@Continue\.0$'}
        for (bi, si, loc), flds in cons:
            for k, rx in want.items():
                cx.check('C13.G5', bool(re.search(rx, flds.get(k, ''))), sg.path, 'field:' + k, 'verifier-initial-state:' + k, flds.get(k, 'missing')[:200], loc)

    # ---------------------------------------------------------------- N1 argument names agree with the parameters they are bound to (engine/argnames.py)
    # ---------------------------------------------------------------- G6 UDP client: a reply that does not verify ends the request
    # UdpRequest::send examines up to three datagrams; wrong source / id / question are skipped (they may be spoofed), but once a
    # datagram has passed those tests its TSIG decides: a verification failure is returned as the error and never leads back to the
    # receive (the next datagram would be judged by a verifier that is spent, or by none at all), and the verifier is not taken out
    # of its slot before the decision
    us = cx.fn('C13.G6', '<hickory_net::udp::udp_client_stream::UdpRequest<P> as hickory_net::udp::udp_client_stream::Request>::send::{closure#0}')
    if us:
        vf = cx.calls(us, r'TSigVerifier::verify$')
        cx.check('C13.G6', len(vf) == 1, us.path, 'calls', 'single-verify-site', str(len(vf)))
        fail = [s_ for bb in range(len(us.blocks)) for s_, ps in us.edge_props(bb).items() if any(re.search(r'^!ok\((?:Result::map_err\()?TSigVerifier::verify\(', shorten(p_)) for p_ in ps)]
        cx.check('C13.G6', len(fail) >= 1, us.path, 'edges', 'verification-failure-edge-present', str(len(fail)))
        after = cx.reachable_from(us, fail) if fail else set()
        rcv = cx.calls(us, r'DnsUdpSocket::recv_from$')
        cx.check('C13.G6', bool(rcv) and not any(r_.bb in after for r_ in rcv), us.path, 'path', 'verification-failure-ends-the-request(no further datagram is accepted)',
                 'a datagram is received after a TSIG verification failure' if any(r_.bb in after for r_ in rcv) else '', vf[0].loc if vf else '')
        errs = [r_ for r_ in cx.returns(us, r'.') if r_.bb in after and not re.search(r'^Result::Ok\(', r_.term)]
        oks_ = [r_ for r_ in cx.returns(us, r'^Result::Ok\(') if r_.bb in after]
        cx.check('C13.G6', len(errs) >= 1 and not oks_, us.path, 'ret', 'verification-failure-is-returned-as-an-error', f'{len(errs)} error returns, {len(oks_)} Ok returns after a failed verification')
        tk = [c_ for c_ in cx.calls(us, r'Option<T>::take$|Option::take$|mem::take$|mem::replace$') if re.search(r'Message::finalize\(', c_.term)]
        cx.check('C13.G6', not tk, us.path, 'calls', 'verifier-not-taken-out-of-its-slot', '; '.join(c_.term[:100] for c_ in tk), tk[0].loc if tk else '')
    argnames.check(cx, 'C13.N1', r'hickory_server::store::sqlite|hickory_proto::rr::tsig|hickory_proto::rr::rdata::tsig|hickory_net::xfer::dns_multiplexer', floor=60)
    argnames.check_fields(cx, 'C13.N1', r'hickory_server::store::sqlite|hickory_proto::rr::tsig|hickory_proto::rr::rdata::tsig|hickory_net::xfer::dns_multiplexer', floor=36)


"""C05 — RRset signed data equals the RFC 4034/4035 canonical form: encoder configured canonical before the first emit,
RR(i) field sequence and provenance, determine_name, canonical-case table, canonical sort key, duplicates removed, one TBS."""
import re
import helpers
from api import shorten, cone

EXPLANATION = (
    "PATH/SEQ/SLICE/TABLE rules over hickory-proto's dnssec::tbs (feature-full build): (P1) in TBS::new the stores "
    "canonical_form = true and name_encoding = Uncompressed precede the first emit (SigInput::emit) and the owner is emitted under "
    "with_name_encoding(UncompressedLowercase); (Q1/S1) every RR is emitted as name, type, class, OrigTTL, place<u16>, RDATA, "
    "replace - in that order on every path - with operands determine_name(name, input.num_labels), input.type_covered, the "
    "dns_class argument, input.original_ttl (never record.ttl) and record.data; the RDLENGTH back-patch is len_since_place of the "
    "same place; records are filtered by class, covered type and owner; (G1) determine_name: labels equal -> the name, labels < "
    "fqdn labels -> '*' + trim_to(labels), otherwise an error; (T1) the RDATA name policy of every type that emits a name equals "
    "the table RFC 4034 6.2 minus NSEC (RFC 6840 5.1): lower-cased and uncompressed for NS, CNAME, SOA, PTR, MX (StandardRecord) "
    "and SIG/RRSIG signer, NAPTR, SRV (Canonical); case preserved, never compressed (Other) for everything else; with_rdata_behavior "
    "maps (policy, canonical_form) as documented; (S2) the sort key of the RRset is the RDATA emitted through an encoder with "
    "canonical_form set (RFC 4034 6.3), never Record's derived order; (P2) a dedup over the same key runs between sort and emit; "
    "(T2) signer (RRSIG::from_rrset) and verifier (Verifier::verify_rrsig) obtain the octets from TBS::from_input, no second "
    "serialisation exists.")
NOT_DECIDED = "Byte equality with a reference encoder on values; the cryptographic primitives."
ASSUMPTIONS = ["FULL feature configuration (dnssec-ring)", "BinEncoder mode semantics as checked in T1"]

T = 'hickory_proto::dnssec::tbs::'
EMIT = r'hickory_proto::serialize::binary::BinEncodable>::emit$'
POLICY = {   # type -> RDataEncoding (RFC 4034 6.2 / RFC 6840 5.1 / RFC 3597 4)
    'MX': 'StandardRecord', 'CNAME': 'StandardRecord', 'NS': 'StandardRecord', 'PTR': 'StandardRecord', 'SOA': 'StandardRecord',
    'SIG': 'Canonical', 'SigInput': 'Canonical', 'NAPTR': 'Canonical', 'SRV': 'Canonical',
    'NSEC': 'Other', 'CAA': 'Other', 'CERT': 'Other', 'ANAME': 'Other', 'OPT': 'Other', 'SVCB': 'Other', 'TSIG': 'Other',
}
NO_POLICY_OK = {   # emit fns that write a name outside RDATA policy, with the reason
    '<hickory_proto::op::query::Query as hickory_proto::serialize::binary::BinEncodable>::emit': 'question name (message level)',
    '<hickory_proto::rr::lower_name::LowerName as hickory_proto::serialize::binary::BinEncodable>::emit': 'delegates to Name',
    '<hickory_proto::rr::rdata::tsig::TsigAlgorithm as hickory_proto::serialize::binary::BinEncodable>::emit': 'called under TSIG::emit policy Other',
    '<hickory_proto::rr::record::Record<R> as hickory_proto::serialize::binary::BinEncodable>::emit': 'owner name (message level)',
    'hickory_proto::dnssec::Nsec3HashAlgorithm::hash': 'hash input, own lowercase encoder',
    'hickory_proto::dnssec::rdata::dnskey::DNSKEY::to_digest': 'digest input, own canonical encoder',
    'hickory_proto::dnssec::tbs::TBS::new': 'owner name under UncompressedLowercase (P1)',
    'hickory_proto::rr::rdata::tsig::TSIG::emit_tsig_for_mac': 'TSIG variables (RFC 8945 4.3.3)',
}


def run(cx):
    prog = cx.prog
    f = cx.fn('C05.P1', T + 'TBS::new')
    if f:
        cf = cx.assigns(f, r'^true$', place=r'canonical_form$')
        ne = cx.assigns(f, r'^NameEncoding::Uncompressed$', place=r'name_encoding$')
        cx.check('C05.P1', len(cf) == 1 and len(ne) == 1, f.path, 'stores', 'canonical-mode-stores', f'canonical_form={len(cf)} name_encoding={len(ne)}')
        emits = cx.calls(f, EMIT)
        cx.floor('C05.P1', len(emits), 6, 'emit calls in TBS::new')
        for st, nm in ((cf, 'canonical_form'), (ne, 'name_encoding')):
            if st:
                cx.must_pass('C05.P1', f, emits, via_blocks={st[0].bb}, what=f'{nm}-set-before-every-emit')
        own = [s for s in emits if s.term.startswith('<Name as BinEncodable>::emit(')]
        cx.check('C05.P1', len(own) == 1 and bool(re.search(r'^<Name as BinEncodable>::emit\(try\(tbs::determine_name\(arg1,arg3\.num_labels\)\)@Continue\.0,BinEncoder::with_name_encoding\(var\(\w+\),NameEncoding::UncompressedLowercase\)\)$', own[0].term)),
                 f.path, 'emit:owner', 'owner=determine_name-lowercased', own[0].term[:200] if own else 'none')
        # ------------------------------------------------------------ Q1/S1 sequence and provenance
        REC = r"<IntoIter<T;A> as Iterator>::next\(.*\)@Some\.0(\.\d)?"
        seq = [('sig-input', r'^<SigInput as BinEncodable>::emit\(arg3,var\(\w+\)\)$'),
               ('owner', r'^<Name as BinEncodable>::emit\('),
               ('type', r'^<RecordType as BinEncodable>::emit\(arg3\.type_covered,var\(\w+\)\)$'),
               ('class', r'^<DNSClass as BinEncodable>::emit\(arg2,var\(\w+\)\)$'),
               ('orig-ttl', r'^<u32 as BinEncodable>::emit\(arg3\.original_ttl,var\(\w+\)\)$'),
               ('rdlength-place', None),
               ('rdata', rf'^<RData as BinEncodable>::emit\({REC}\.data,var\(\w+\)\)$'),
               ('rdlength-replace', None)]
        sites = {}
        for nm, rx in seq:
            if rx:
                ss = [s for s in emits if re.search(rx, s.term)]
            elif nm == 'rdlength-place':
                ss = cx.calls(f, r'BinEncoder::place$')
            else:
                ss = cx.calls(f, r'Place<T>::replace$|Place::replace$')
            cx.check('C05.Q1', len(ss) == 1, f.path, 'emit:' + nm, 'field-emitted-once-with-reviewed-operand', '; '.join(s.term[:120] for s in ss) or 'no matching emit')
            if len(ss) == 1:
                sites[nm] = ss[0]
        cx.check('C05.Q1', len(emits) == 6, f.path, 'emits', 'no-extra-emit', f'{len(emits)} BinEncodable::emit calls, 6 reviewed')
        order = [n for n, _ in seq if n in sites]
        for a, b in zip(order, order[1:]):
            cx.must_pass('C05.Q1', f, [sites[b]], via_blocks={sites[a].bb}, what=f'{a}-before-{b}')
        # within one iteration too (from the loop body entry)
        body = [s for bb in range(len(f.blocks)) for s, ps in f.edge_props(bb).items() if any(re.search(r"^ok\(<IntoIter<T;A> as Iterator>::next\(", shorten(p)) for p in ps)]
        cx.check('C05.Q1', len(body) == 1, f.path, 'loop', 'rr-loop-shape', str(len(body)))
        if body:
            for a, b in zip(order[1:], order[2:]):
                cx.must_pass('C05.Q1', f, [sites[b]], via_blocks={sites[a].bb}, start_blocks=body, what=f'per-RR:{a}-before-{b}')
        if 'rdlength-replace' in sites:
            s = sites['rdlength-replace']
            ok = bool(re.search(r'^Place::replace\(try\(BinEncoder::place\(var\(\w+\)\)\)@Continue\.0,var\(\w+\),try\(Result::map_err\(.*try_from\(BinEncoder::len_since_place\(var\(\w+\),try\(BinEncoder::place\(var\(\w+\)\)\)@Continue\.0\)\)', s.term))
            cx.check('C05.S1', ok, f.path, s.key(), 'rdlength=len_since_place(same place)', s.term[:200], s.loc)
        txt = ' '.join(s.term for s in emits)
        cx.check('C05.S1', not re.search(r'@Some\.0(\.\d)?\.ttl', txt), f.path, 'emits', 'record-ttl-not-signed', 'the per-record TTL must not reach the signed data')
        push = cx.calls(f, r'Vec<T, A>::push$|Vec::push$')
        flt = [c_ for c_ in cx.prog.find(r'^hickory_proto::dnssec::tbs::TBS::new::\{closure@filter#\d+\}$')]
        if not push and len(flt) == 1:
            # the same selection as `records.filter(|r| ..).collect()`: the filter closure is the membership predicate
            cx.bool_cnf('C05.S1', flt[0], [[r'eq:DNSClass\((\^arg2,arg2\.dns_class|arg2\.dns_class,\^arg2)\)'],
                                           [r'eq:RecordType\((Record::record_type\(arg2\),\^arg3\.type_covered|\^arg3\.type_covered,Record::record_type\(arg2\))\)'],
                                           [r'eq:&?Name\((\^arg1,arg2\.name|arg2\.name,\^arg1)\)']], 'rrset-member=same class, covered type, same owner')
            src = [s_ for s_ in cx.calls(f, r'Iterator::filter$') if re.search(r'^Iterator::filter\(arg4,closure:', s_.term)]
            cx.check('C05.S1', len(src) == 1, f.path, 'calls', 'members-filtered-from-the-records-argument', str(len(src)))
            push = None
    if f and push is not None:
        cx.guard('C05.S1', push, {'same-class': r'^eq:DNSClass\(arg2,Iterator::next\(arg4\)@Some\.0\.dns_class\)$|^eq:DNSClass\(Iterator::next\(arg4\)@Some\.0\.dns_class,arg2\)$',
                                  'covered-type': r'^eq:RecordType\(Record::record_type\(Iterator::next\(arg4\)@Some\.0\),arg3\.type_covered\)$|^eq:RecordType\(arg3\.type_covered,Record::record_type\(',
                                  'same-owner': r'^eq:Name\(.*arg1.*\)$|^eq:&Name\(|^eq:Name\('}, expect=1, fn=f)
        # ------------------------------------------------------------ S2 sort key / P2 dedup
        sorts = cx.calls(f, r'slice::<impl \[T\]>::(sort|sort_by|sort_unstable|sort_unstable_by|sort_by_key|sort_by_cached_key|sort_unstable_by_key)$|slice::(sort|sort_by|sort_unstable|sort_unstable_by|sort_by_key|sort_by_cached_key|sort_unstable_by_key)$')
        cx.check('C05.S2', len(sorts) == 1, f.path, 'calls', 'single-sort', '; '.join(s.term[:100] for s in sorts))
        keyfn_ok = False
        detail = ''
        if sorts:
            s = sorts[0]
            if re.match(r'^slice::sort(_unstable)?\(', s.term):
                detail = 'sorts with the element type\'s own Ord (Record::cmp orders by TTL before RDATA and compares RDATA in non-canonical case)'
            else:
                # functions reachable from the closures of TBS::new inside the tbs module
                cl = [g.path for g in prog.find(r'^hickory_proto::dnssec::tbs::TBS::new::\{closure[^}]*\}$')]
                cn = [p for p in cone(prog, cl) if p.startswith('hickory_proto::dnssec::tbs::')]
                for p in cn:
                    g = prog.fns[p]
                    cfk = cx.assigns(g, r'^true$', place=r'canonical_form$')
                    em = [e for e in cx.calls(g, EMIT) if e.term.startswith('<RData as BinEncodable>::emit(')]
                    if cfk and em:
                        pre = all(e.bb == cfk[0].bb or (e.bb in cx.reachable_from(g, [cfk[0].bb]) and cfk[0].bb not in cx.reachable_from(g, g.succs(e.bb))) for e in em)
                        # every path to the emit passes the store
                        from api import Site
                        ok2 = True
                        for e in em:
                            seen = cx.reach(g).run(edge_ok=lambda bb, s_, props, blk=cfk[0].bb: bb != blk)
                            if e.bb in seen and e.bb != cfk[0].bb:
                                ok2 = False
                        if pre and ok2:
                            keyfn_ok = True
                            detail = f'key function {shorten(p + "(")[:-1]} emits RDATA with canonical_form set'
                cmpc = [g for g in prog.find(r'^hickory_proto::dnssec::tbs::TBS::new::\{closure[^}]*\}$') if any(re.search(r'^<Vec<T;A> as Ord>::cmp\(arg2\.0,arg3\.0\)$|Ord>::cmp\(arg2\.0,arg3\.0\)$', shorten(g.term_call(t, 0))) for bi, c, t in prog.calls_of(g))]
                if keyfn_ok and not cmpc and 'sort_by(' in s.term:
                    keyfn_ok = False
                    detail = 'comparator does not compare the canonical keys'
        cx.check('C05.S2', keyfn_ok, f.path, 'sort', 'sort-key-canonical', detail, sorts[0].loc if sorts else '')
        dd = cx.calls(f, r'Vec<T, A>::(dedup|dedup_by|dedup_by_key)$|Vec::(dedup|dedup_by|dedup_by_key)$')
        ok = len(dd) == 1 and bool(sorts) and 'rdata' in sites and dd[0].bb in cx.reachable_from(f, [sorts[0].bb]) and sites['rdata'].bb in cx.reachable_from(f, [dd[0].bb])
        cx.check('C05.P2', ok, f.path, 'calls', 'duplicates-removed-between-sort-and-emit', f'{len(dd)} dedup calls', dd[0].loc if dd else '')
        if dd:
            eqc = [g for g in prog.find(r'^hickory_proto::dnssec::tbs::TBS::new::\{closure[^}]*\}$') if any(shorten(r.term) in ('eq:Vec(arg2.0,arg3.0)', 'eq:Vec(arg3.0,arg2.0)') for r in cx.true_returns(g))]
            cx.check('C05.P2', len(eqc) == 1 or re.match(r'^Vec::dedup\(', dd[0].term) is not None, f.path, dd[0].key(), 'dedup-on-the-sort-key', dd[0].term[:120], dd[0].loc)
    # ---------------------------------------------------------------- G1 determine_name
    d = cx.fn('C05.G1', T + 'determine_name')
    if d:
        same = cx.returns(d, r'^Result::Ok\(arg1\)$')
        cx.guard('C05.G1', same, {'labels-equal': r'^eq\(arg2,Name::num_labels\(arg1\)\)$'}, expect=1, fn=d)
        wild = [s for s in cx.returns(d, r'^Result::Ok\(') if (s.bb, s.si) not in {(x.bb, x.si) for x in same}]
        cx.guard('C05.G1', wild, {'labels-less-than-fqdn-labels': r'^lt\(arg2,Name::num_labels\(arg1\)\)$'}, fn=d)
        for s in wild:
            cx.check('C05.G1', 'Name::from_labels(' in s.term and ('Name::trim_to(arg1,cast<usize>(arg2))' in s.term or cx.has_guard(s, r'^Name::is_root\(Name::trim_to\(arg1,cast<usize>\(arg2\)\)\)$')),
                     d.path, s.key(), 'wildcard-name=*+rightmost-labels', s.term[:160], s.loc)
        cx.check('C05.G1', 1 <= len(wild) <= 2, d.path, 'ret', 'wildcard-returns', str(len(wild)))
        errs = cx.returns(d, r'^Result::Err\(')
        cx.guard('C05.G1', errs, {'labels-greater': r'^le\(Name::num_labels\(arg1\),arg2\)$', 'not-equal': r'^!eq\(arg2,Name::num_labels\(arg1\)\)$'}, expect=1, fn=d)
    # ---------------------------------------------------------------- T1 canonical-case table
    check_policy_table(cx, 'C05.T1')
    # ---------------------------------------------------------------- T2 one TBS
    callers = {}
    for g in prog.fns.values():
        if '::tests::' in g.path:
            continue
        for s in cx.calls(g, r'tbs::TBS::(from_input|new)$'):
            callers.setdefault(g.path, []).append(s)
    want = {'hickory_proto::dnssec::rdata::rrsig::RRSIG::from_rrset', T + 'TBS::from_input', 'hickory_proto::dnssec::verifier::Verifier::verify_rrsig'}
    cx.check('C05.T2', set(callers) == want, T + 'TBS', 'callers', 'signer-and-verifier-share-one-TBS', ', '.join(sorted(set(callers) ^ want)) or 'as reviewed')
    v = callers.get('hickory_proto::dnssec::verifier::Verifier::verify_rrsig', [])
    cx.check('C05.T2', len(v) == 1 and v[0].term == 'TBS::from_input(arg2,arg3,SIG::input(arg4),arg5)', 'hickory_proto::dnssec::verifier::Verifier::verify_rrsig', 'call', 'verifier-TBS-arguments', v[0].term if v else 'none')
    # other constructors of TBS
    from api import writers
    cons = {w[0].path for w in writers(prog, r'dnssec::tbs::TBS$', None) if w[4] == 'construct'}
    allowed = {T + 'TBS::new', "<hickory_proto::dnssec::tbs::TBS as core::convert::From<&'a [u8]>>::from", '<hickory_proto::dnssec::tbs::TBS as core::clone::Clone>::clone'}
    cx.check('C05.T2', cons <= allowed, T + 'TBS', 'writers', 'TBS-constructors', ', '.join(sorted(cons - allowed)) or 'as reviewed')

    # ---------------------------------------------------------------- H helper semantics the guards above rely on (rules/helpers.py)
    helpers.check(cx, 'C05.H', ['Name::trim_to', 'Name::is_root', 'Name::is_wildcard'])



def check_policy_table(cx, rule, compress_only=False):
    """RDATA name policy per type (shared with C02.T2)"""
    prog = cx.prog
    tab = {}
    for f in prog.fns.values():
        if f.crate != 'hickory_proto' or '::tests::' in f.path:
            continue
        for s in cx.calls(f, r'BinEncoder::with_rdata_behavior$'):
            m = re.search(r'with_rdata_behavior\(.*,RDataEncoding::(\w+)\)$', s.term)
            ty = re.search(r'^<hickory_proto::[\w:]+::(\w+) as ', f.path)
            tab[ty.group(1) if ty else f.path] = (m.group(1) if m else '?', f, s)
    for ty, (pol, f, s) in sorted(tab.items()):
        want = POLICY.get(ty)
        if compress_only:
            ok = (pol == 'StandardRecord') == (want == 'StandardRecord') and want is not None
        else:
            ok = pol == want
        cx.check(rule, ok, f.path, 'policy', 'rdata-name-policy', f'{ty}: {pol}, table says {want}', s.loc,
                 sample={'type': ty, 'policy': pol, 'table': want})
    cx.check(rule, set(POLICY) <= set(tab), 'hickory_proto', 'table', 'policy-table-complete', ', '.join(sorted(set(POLICY) - set(tab))) or f'{len(tab)} types')
    # every function that emits a Name either runs under a policy guard or is a reviewed non-RDATA emitter
    for f in prog.fns.values():
        if f.crate != 'hickory_proto' or '::tests::' in f.path:
            continue
        ne = cx.calls(f, r'Name as hickory_proto::serialize::binary::BinEncodable>::emit$')
        if not ne:
            continue
        guarded = bool(cx.calls(f, r'BinEncoder::with_rdata_behavior$'))
        if not guarded:
            cx.check(rule, f.path in NO_POLICY_OK, f.path, 'emit', 'name-emitted-under-a-policy', NO_POLICY_OK.get(f.path, 'emits a name with no RDATA policy guard'), ne[0].loc)
        else:
            pol = cx.calls(f, r'BinEncoder::with_rdata_behavior$')
            for s in ne:
                cx.check(rule, s.bb in cx.reachable_from(f, [pol[0].bb]) and 'BinEncoder::with_rdata_behavior(' in s.term, f.path, s.key(), 'name-emitted-through-the-guard', s.term[:120], s.loc)
    # the mode mapping itself
    w = cx.fn(rule, 'hickory_proto::serialize::binary::encoder::BinEncoder::with_rdata_behavior')
    if w:
        low = cx.assigns(w, r'^NameEncoding::UncompressedLowercase$', place=r'name_encoding$')
        unc = cx.assigns(w, r'^NameEncoding::Uncompressed$', place=r'name_encoding$')
        cx.guard(rule, low, {'canonical-form': r'^arg1\.canonical_form$', 'policy-lowercases': r'^is\(arg2,(StandardRecord|Canonical)\)$|^in\(arg2,StandardRecord\|Canonical\)$'}, fn=w)
        cx.guard(rule, unc, {'not(standard-and-not-canonical)': r'^is\(arg2,(Canonical|Other)\)$|^in\(arg2,Canonical\|Other\)$|^arg1\.canonical_form$'}, fn=w)
        cx.check(rule, len(low) >= 1 and len(unc) >= 1, w.path, 'stores', 'mode-stores-present', f'lower={len(low)} uncompressed={len(unc)}')

    # ---------------------------------------------------------------- S3 the label count behind the RRSIG Labels field (RFC 4034 3.1.3)
    # "The value of the Labels field MUST NOT count either the null (root) label ... or the leftmost label if it is a wildcard":
    # Name::num_labels feeds both the signer (SigInput::from_rrset) and the verifier (determine_name); it is the number of labels,
    # minus one exactly when the LEFTMOST label is `*` - an asterisk label elsewhere (`sub.*.example.`) counts
    nl = cx.fn('C05.S3', 'hickory_proto::rr::domain::name::Name::num_labels')
    if nl:
        COUNT = r'cast<u8>\(TinyVec::len\(\^?arg1\.label_ends\)\)'
        r_ = cx.returns(nl, r'.')
        ok = len(r_) == 1 and bool(re.fullmatch(r"Option::unwrap_or\(Option::map\(<LabelIter<'a> as Iterator>::next\(Name::iter\(arg1\)\),closure:Name::num_labels::\{closure@map#0\}\)," + COUNT + r'\)', r_[0].term))
        cx.check('C05.S3', ok, nl.path, 'ret', 'label-count-adjusted-by-the-first-label-only', '; '.join(x.term[:140] for x in r_))
        cl_ = cx.fn('C05.S3', 'hickory_proto::rr::domain::name::Name::num_labels::{closure@map#0}')
        if cl_:
            rr_ = cx.returns(cl_, r'.')
            minus = [x for x in rr_ if re.fullmatch(r'subwithoverflow\(' + COUNT + r',1\)\.0', x.term)]
            plain = [x for x in rr_ if re.fullmatch(COUNT, x.term)]
            cx.check('C05.S3', len(rr_) == 2 and len(minus) == 1 and len(plain) == 1, cl_.path, 'ret', 'count-or-count-minus-one', '; '.join(x.term[:80] for x in rr_))
            cx.guard('C05.S3', minus, {'leftmost-label-is-asterisk': r'^eq:\[u8\]\(arg2,lit:b"\*"\)$'}, fn=cl_)
            cx.guard('C05.S3', plain, {'leftmost-label-is-not-asterisk': r'^!eq:\[u8\]\(arg2,lit:b"\*"\)$'}, fn=cl_)
    # users of the count on both sides
    si = [g for g in cx.prog.find(r'dnssec::rdata::sig::SigInput::from_rrset$')]
    for g in si:
        uses = cx.calls(g, r'Name::num_labels$')
        cx.check('C05.S3', len(uses) >= 1, g.path, 'calls', 'signer-labels-field-from-num_labels', str(len(uses)))

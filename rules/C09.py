"""C09 — NSEC3 denial of existence: entry sanity checks, the guard set of every Secure yield
(RFC 5155 8.4-8.8), the cover test in normal form incl. wrap-around, authenticated inputs."""
import re
import argnames
import helpers
import C06
from api import shorten

EXPLANATION = (
    "GUARD rules over hickory-net's nsec3.rs (feature-full build): (G1) no validate_* call and no Secure is reachable in "
    "verify_nsec3 unless every record's owner splits into <label>.<zone> with zone == SOA owner (when a SOA is present), all "
    "records share hash algorithm, salt and iterations, and iterations <= soft limit <= ... (hard limit gives Bogus, soft limit "
    "Insecure); (G2) each of the 8 Secure yields carries the RFC 5155 8.4-8.8 premise set (closest encloser match, next closer "
    "cover, wildcard cover/match, type and CNAME bits clear, opt-out only for DS, wildcard label count < qname labels); a ninth "
    "Secure origin is a violation; (G3) find_covering_record's closure returns true only for non-matching records and, in the "
    "normal arm, owner < target and target < next, in the wrap-around arm owner < target or target < next; (S1) only NSEC3s "
    "that are themselves Secure reach verify_nsec3 (F31).  After F33: the closest encloser proof is taken only from a matching NSEC3 without "
    "DNAME and without NS-but-not-SOA (RFC 5155 8.3), the NODATA match refuses an ancestor-delegation NSEC3 for non-DS types (RFC 6840 4.1); "
    "(A1) as C08; (B1) type bit map decoder; (N1) the iteration limits reach the per-request handle unswapped (field/argument name agreement).")
NOT_DECIDED = ("Logical entailment over all zones and NSEC3 subsets, completeness against the server's own proofs, and hash values "
               "- relations over runtime values. The guard sets are the RFC's stated premises. RFC 6840 4.1 ancestor-delegation "
               "checks (DESIGN F10) are not in the property's statement (it cites RFC 5155 section 8) and are not required here.")
ASSUMPTIONS = ["FULL feature configuration (dnssec-ring)", "Label/[u8] comparisons are the canonical hash order (C04)"]

N = 'hickory_net::dnssec::nsec3::'
ITER = r'NSEC3::iterations\(<Vec<T;A> as Index<I>>::index\(.*,0\)\.nsec3_data\)'
QREC = r"<Iter<'a;T> as Iterator>::find\(slice::iter\(arg3\.nsec3s\),closure:nsec3::validate_nodata_response::\{closure@find#0\}\)"
CEW = r'Context::closest_encloser_proof_with_wildcard\(arg3,true\)'
CEX = r'Context::closest_encloser_proof_with_wildcard\(arg1,false\)'


def run(cx):
    # ------------------------------------------------------------------ G1 entry checks
    f = cx.fn('C09.G1', N + 'verify_nsec3')
    if f:
        down = cx.calls(f, r'nsec3::validate_(nxdomain|nodata)_response$') + cx.calls(f, r'nsec3::Context::proof$')
        req = {
            'iterations-le-soft': rf'^le\({ITER},arg6\)$',
            'iterations-le-hard': rf'^le\({ITER},arg7\)$',
            'params-agree': r"^!<Iter<'a;T> as Iterator>::any\(slice::iter\(.*\),closure:nsec3::verify_nsec3::\{closure@any#0\}\)$"
                            r"|^<Iter<'a;T> as Iterator>::all\(slice::iter\(.*\),closure:nsec3::verify_nsec3::\{closure@all#0\}\)$",
            'all-records-scanned': r"^!ok\(<Iter<'a;T> as Iterator>::next\(arg5\)\)$",
        }
        cx.guard('C09.G1', down, req, expect=3, fn=f)
        nx = [s for s in down if 'validate_nxdomain' in s.term]
        nd = [s for s in down if 'validate_nodata' in s.term]
        cx.guard('C09.G1', nx, {'rcode-NXDomain': r'^is\(arg3,NXDomain\)$'}, expect=1, fn=f)
        cx.guard('C09.G1', nd, {'rcode-NoError': r'^is\(arg3,NoError\)$'}, expect=1, fn=f)
        # per-record checks: the loop's back edge is only reachable through the three pass edges
        body = [s for bb in range(len(f.blocks)) for s, ps in f.edge_props(bb).items()
                if any(re.search(r"^ok\(<Iter<'a;T> as Iterator>::next\(arg5\)\)$", shorten(p)) for p in ps)]
        cx.check('C09.G1', len(body) == 1, f.path, 'loop', 'record-loop-shape', f'{len(body)} loop bodies')
        for name, pat in {
                'owner-splits': r'^ok\(nsec3::split_first_label\(',
                'base-equals-soa': r'^!Option::is_some_and\(arg2,closure:nsec3::verify_nsec3::\{closure@is_some_and#0\}\)$',
                'hash-label-valid': r'^ok\(Label::from_raw_bytes\('}.items():
            cx.must_pass('C09.G1', f, down, via_edge=pat, start_blocks=body, what='per-record:' + name)
        # yields in verify_nsec3 itself: Insecure only above the soft limit, never Secure
        ys = cx.calls(f, r'nsec3::nsec3_yield$')
        sec = [s for s in ys if 'Proof::Secure' in s.term]
        cx.check('C09.G1', len(sec) == 0, f.path, 'yields', 'no-secure-yield-in-entry', str(sec))
        ins = [s for s in ys if 'Proof::Insecure' in s.term]
        cx.guard('C09.G1', ins, {'over-soft-limit': rf'^lt\(arg6,{ITER}\)$', 'not-over-hard': rf'^le\({ITER},arg7\)$'}, expect=1, fn=f)
        bog = [s for s in ys if 'Proof::Bogus' in s.term and 'iteration count' in s.term]
        cx.guard('C09.G1', bog, {'over-hard-limit': rf'^lt\(arg7,{ITER}\)$'}, expect=1, fn=f)
    c0 = cx.fn('C09.G1', N + 'verify_nsec3::{closure@is_some_and#0}')
    if c0:
        t = cx.true_returns(c0)
        ok = len(t) == 1 and bool(re.search(r'^!eq:Name\((nsec3::split_first_label\(.*\)@Some\.0\.1,arg2|arg2,nsec3::split_first_label\(.*\)@Some\.0\.1)\)$', t[0].term))
        cx.check('C09.G1', ok, c0.path, 'ret', 'zone-mismatch-is-name-inequality',
                 'closure must report a mismatch exactly when base != soa: ' + '; '.join(s.term[:160] for s in t),
                 t[0].loc if t else '')
    # the mismatch scan is either `any(|r| r differs)` negated or its dual `all(|r| r agrees)`: the record-agrees outcome of the
    # closure (false of `any`, true of `all`) must imply the three equalities
    dual = (N + 'verify_nsec3::{closure@all#0}') in cx.prog.fns and (N + 'verify_nsec3::{closure@any#0}') not in cx.prog.fns
    c1 = cx.fn('C09.G1', N + ('verify_nsec3::{closure@all#0}' if dual else 'verify_nsec3::{closure@any#0}'))
    if c1:
        fr = cx.true_returns(c1) if dual else cx.false_returns(c1)
        cx.guard('C09.G1', fr, {
            'algorithm-equal': r'^eq:Nsec3HashAlgorithm\(NSEC3::hash_algorithm\(.*\^arg\d.*\),NSEC3::hash_algorithm\(arg2\.nsec3_data\)\)$',
            'salt-equal': r'^eq:\[u8\]\(NSEC3::salt\(.*\^arg\d.*\),NSEC3::salt\(arg2\.nsec3_data\)\)$',
            'iterations-equal': r'^eq\(NSEC3::iterations\(.*\^arg\d.*\),NSEC3::iterations\(arg2\.nsec3_data\)\)$'}, expect=1, fn=c1)

    # ------------------------------------------------------------------ G2 Secure sites
    total_secure = 0
    f = cx.fn('C09.G2', N + 'validate_nxdomain_response')
    if f:
        sec = [s for s in cx.calls(f, r'Context::proof$') if 'Proof::Secure' in s.term]
        total_secure += len(sec)
        common = {'no-record-matches-qname': r"^!<Iter<'a;T> as Iterator>::any\(slice::iter\(arg1\.nsec3s\),closure:nsec3::validate_nxdomain_response::\{closure@any#0\}\)$",
                  'next-closer-covered': rf'^ok\({CEX}\.0\.next_closer\)$',
                  'wildcard-covered': rf'^ok\({CEX}\.1\)$',
                  'closest-encloser-matched-or-parent-is-soa': rf'^ok\({CEX}\.0\.closest_encloser\)$|^eq:Option\(Option::Some\(Name::base_name\(arg1\.query\.name\)\),arg1\.soa\)$'}
        cx.guard('C09.G2', sec, common, expect=2, fn=f)
    c = cx.fn('C09.G2', N + 'validate_nxdomain_response::{closure@any#0}')
    if c:
        t = cx.true_returns(c)
        cx.check('C09.G2', len(t) == 1 and bool(re.search(r'^eq:Label\(arg2\.base32_hashed_name,Context::hash_and_label\(\^arg1,\^arg1\.query\.name\)\.1\)$', t[0].term)),
                 c.path, 'ret', 'match-is-hash-equality', '; '.join(s.term[:160] for s in t))
    f = cx.fn('C09.G2', N + 'validate_nodata_response')
    if f:
        direct = [s for s in cx.calls(f, r'Context::proof$') if 'Proof::Secure' in s.term]
        tup = cx.assigns(f, r'^\(Proof::Secure,', place=None)
        total_secure += len(direct) + len(tup)
        nodata = [s for s in direct if 'type map does not cover' in s.term]
        optout = [s for s in direct if 'opt-out' in s.term]
        cx.guard('C09.G2', nodata, {
            'matching-record': rf'^ok\({QREC}\)$',
            'qtype-bit-clear': rf'^!RecordTypeSet::contains\(NSEC3::type_set\({QREC}@Some\.0\.nsec3_data\),arg1\)$',
            'cname-bit-clear': rf'^!RecordTypeSet::contains\(NSEC3::type_set\({QREC}@Some\.0\.nsec3_data\),RecordType::CNAME\)$',
            # RFC 6840 4.1: an ancestor-delegation NSEC3 (NS set, SOA clear) proves nothing but DS absence
            'not-ancestor-delegation(RFC6840-4.1)':
                rf'^!RecordTypeSet::contains\(NSEC3::type_set\({QREC}@Some\.0\.nsec3_data\),RecordType::NS\)$|'
                rf'^RecordTypeSet::contains\(NSEC3::type_set\({QREC}@Some\.0\.nsec3_data\),RecordType::SOA\)$|'
                r'^eq:RecordType\(RecordType::DS,arg1\)$'}, expect=1, fn=f)
        cx.guard('C09.G2', optout, {
            'qtype-is-DS': r'^eq:RecordType\(RecordType::DS,arg1\)$',
            'no-matching-record': rf'^!ok\({QREC}\)$',
            'covered-and-opt-out': r'^Option::is_some_and\(nsec3::find_covering_record\(arg3\.nsec3s,Context::hash_and_label\(arg3,arg3\.query\.name\)\.0,Context::hash_and_label\(arg3,arg3\.query\.name\)\.1\),closure:nsec3::validate_nodata_response::\{closure@is_some_and#0\}\)$'},
            expect=1, fn=f)
        wc_answer = [s for s in tup if 'covering next closer record' in s.term]
        cx.guard('C09.G2', wc_answer, {
            'wildcard-labels-lt-qname-labels': r'^lt\(arg2@Some\.0,Name::num_labels\(arg3\.query\.name\)\)$',
            'next-closer-covered': r'^ok\(nsec3::find_covering_record\(arg3\.nsec3s,HashedNameInfo::new\(.*\)\.hashed_name,HashedNameInfo::new\(.*\)\.base32_hashed_name\)\)$',
            'no-matching-record': rf'^!ok\({QREC}\)$'}, expect=1, fn=f)
        wc_nodata = [s for s in tup if 'servicing wildcard with closest encloser proof' in s.term]
        cx.guard('C09.G2', wc_nodata, {
            'no-wildcard-answer': r'^!ok\(arg2\)$',
            'closest-encloser': rf'^ok\({CEW}\.0\.closest_encloser\)$',
            'next-closer': rf'^ok\({CEW}\.0\.next_closer\)$',
            'wildcard-matched': rf'^ok\({CEW}\.1\)$',
            'wildcard-qtype-clear': rf'^!RecordTypeSet::contains\(NSEC3::type_set\({CEW}\.1@Some\.0\.1\.nsec3_data\),arg1\)$',
            'wildcard-cname-clear': rf'^!RecordTypeSet::contains\(NSEC3::type_set\({CEW}\.1@Some\.0\.1\.nsec3_data\),RecordType::CNAME\)$'}, expect=1, fn=f)
        # RFC 5155 8.5-8.7: a NODATA verdict rests on NSEC3 records - a record matching the query name (8.5), an opt-out cover
        # (8.6), or a closest-encloser proof with the wildcard (8.7).  The remaining Secure origins are the shortcuts for a closest
        # encloser that is the zone apex (which exists without proof); they still need the cover of the next closer name and the
        # matching wildcard record.  A Secure verdict that rests on no record at all is a violation.
        apex = [s for s in tup if s not in wc_answer and s not in wc_nodata]
        cx.guard('C09.G2', apex, {
            'no-wildcard-answer': r'^!ok\(arg2\)$',
            'closest-encloser-is-the-apex': r'^eq:Option\(Option::Some\(Name::base_name\(arg3\.query\.name\)\),arg3\.soa\)$',
            'next-closer': rf'^ok\({CEW}\.0\.next_closer\)$',
            'wildcard-matched': rf'^ok\({CEW}\.1\)$'}, expect=1, fn=f)
        # the wildcard lookup really is "matching" in the NODATA case and "covering" in the NXDOMAIN case
    # RFC 5155 8.3: the NSEC3 RR that matches the closest encloser must be from the proper zone - "the DNAME type bit must not be set
    # and the NS type bit may only be set if the SOA type bit is set" - otherwise it is the parent side of a delegation (or a DNAME
    # owner) and says nothing about names below it
    cp = cx.fn('C09.G2', N + 'Context::closest_encloser_proof')
    if cp:
        found = cx.returns(cp, r'^ClosestEncloserProofInfo\(Option::Some\(')
        MATCH = r"<Iter<'a;T> as Iterator>::find_map\(slice::iter\(Iterator::collect\(Iterator::map\(Context::encloser_candidates\(arg1\),closure:[^)]*\)\)\),closure:[^)]*\)@Some\.0"
        TS3 = rf'RecordTypeSet::contains\(NSEC3::type_set\({MATCH}\.nsec3_data\),%s\)'
        cx.guard('C09.G2', found, {
            'closest-encloser-has-a-matching-record': rf"^ok\(<Iter<'a;T> as Iterator>::find_map\(",
            'closest-encloser-is-not-a-DNAME-owner(RFC5155-8.3)': '^!' + TS3 % r'(const:nsec3::DNAME|RecordType::Unknown\(39\))' + '$',
            'closest-encloser-is-not-a-delegation(RFC5155-8.3)': '^!' + TS3 % 'RecordType::NS' + '$|^' + TS3 % 'RecordType::SOA' + '$'}, expect=1, fn=cp)
    w = cx.fn('C09.G2', N + 'Context::closest_encloser_proof_with_wildcard')
    if w:
        cov = cx.calls(w, r'nsec3::find_covering_record$')
        cx.guard('C09.G2', cov, {'only-when-not-matching': r'^!arg2$'}, expect=1, fn=w)
        mt = cx.calls(w, r'Iterator>::find$')
        cx.guard('C09.G2', mt, {'only-when-matching': r'^arg2$'}, expect=1, fn=w)
    cx.check('C09.G2', total_secure == 7, N + '*', 'secure-origins', 'secure-origin-count',
             f'{total_secure} Secure yields in validate_nxdomain_response/validate_nodata_response, 7 reviewed')
    # no other function of the module constructs Proof::Secure
    others = []
    for g in cx.prog.find(r'^hickory_net::dnssec::nsec3::'):
        if g.path in (N + 'validate_nxdomain_response', N + 'validate_nodata_response'):
            continue
        for bi, b in enumerate(g.blocks):
            for st in b['s']:
                if st[0] == '=' and 'Proof::Secure' in shorten(g.term_rvalue(st[2], 0)) and st[2][0] in ('adt', 'tuple'):
                    others.append(f'{g.path} @ {g.loc(bi)}')
    cx.check('C09.G2', not others, N + '*', 'secure-origins', 'no-other-secure-origin', '; '.join(others))

    # ------------------------------------------------------------------ G3 cover test
    c = cx.fn('C09.G3', N + 'find_covering_record::{closure@find#0}')
    if c:
        OWN_LT_TGT = r'^lt:Label\(arg2\.base32_hashed_name,\^arg3\)$'
        TGT_LT_NEXT = r'^lt:\[u8\]\(\^arg2,NSEC3::next_hashed_owner_name\(arg2\.nsec3_data\)\)$'
        NORMAL = r'^lt:Label\(arg2\.base32_hashed_name,NSEC3::next_hashed_owner_name_base32\(arg2\.nsec3_data\)@Some\.0\)$'
        t = cx.true_returns(c)
        cx.guard('C09.G3', t, {'not-matching': r'^!eq:Label\(\^arg3,arg2\.base32_hashed_name\)$',
                               'has-next-owner': r'^ok\(NSEC3::next_hashed_owner_name_base32\(arg2\.nsec3_data\)\)$',
                               'owner<target or target<next': OWN_LT_TGT + '|' + TGT_LT_NEXT}, fn=c)
        normal = [s for s in t if cx.has_guard(s, NORMAL)]
        wrap = [s for s in t if s not in normal]
        cx.guard('C09.G3', normal, {'owner<target': OWN_LT_TGT, 'target<next': TGT_LT_NEXT}, fn=c)
        cx.guard('C09.G3', wrap, {'wrap-around-arm': '^!' + NORMAL[1:]}, fn=c)
        cx.check('C09.G3', len(normal) >= 1 and len(wrap) >= 1, c.path, 'ret', 'both-arms-present', f'normal={len(normal)} wrap={len(wrap)}')
    # S1: authenticated inputs -- shared with C08 (filter closure in verify_response)
    auth_filter(cx, 'C09.S1', 'NSEC3')

    # ---------------------------------------------------------------- A1 only authenticated, non-synthesised NSEC/NSEC3 enter the proof
    C06.nsec_not_wildcard_expanded(cx, 'C09.A1')

    # ---------------------------------------------------------------- B1 the type bit map decoder
    type_bitmap(cx, 'C09.B1')

    # ---------------------------------------------------------------- H helper semantics the guards above rely on (rules/helpers.py)
    helpers.check(cx, 'C09.H', ['Name::zone_of', 'Name::base_name', 'RecordTypeSet::contains', 'NSEC3::type_set'])

    # ---------------------------------------------------------------- N1 argument names agree with the parameters they are bound to (engine/argnames.py)
    # ---------------------------------------------------------------- S3 server side: every empty non-terminal gets an NSEC3 record
    # (RFC 5155 7.1: "each empty non-terminal MUST have a corresponding NSEC3 RR"; the converse clause of C09 - the server's own
    # proof is accepted - fails for a name whose NSEC3 is missing from the ring).  nsec3_zone adds, for every owner name, each
    # ancestor strictly between the name and the origin: the walk is bounded by comparing the RUNNING ancestor with the origin, not
    # by a label count taken from the owner name (Name::num_labels does not count a leading `*`)
    nz = cx.fn('C09.S3', 'hickory_server::store::in_memory::inner::InnerInMemory::nsec3_zone')
    if nz:
        ent = cx.calls(nz, r'Entry<.*>::or_insert_with$|Entry::or_insert_with$')
        ANC = r'phi\(LowerName::base_name\(.*\)\|LowerName::base_name\(rec\(_\d+\)\)\)'
        cx.guard('C09.S3', ent, {'ancestor-walk-runs-until-the-origin': rf'^lt\(LowerName::num_labels\(arg2\),LowerName::num_labels\({ANC}\)\)$'}, expect=1, fn=nz)
    argnames.check(cx, 'C09.N1', r'hickory_net::dnssec', floor=80)
    argnames.check_fields(cx, 'C09.N1', r'hickory_net::dnssec', floor=45)



def type_bitmap(cx, rule):
    """the NSEC / NSEC3 type bit map decoder (shared by C08 and C09: every "type bit clear" guard reads its result).  RFC 4034
    4.1.2 / RFC 5155 3.2.1: bit b of octet o of window w set <=> type (w << 8) | (o * 8 + b) is present.  Every set bit is inserted
    - the only things between the bit test and the next bit are the index arithmetic (whose failure is an error return) and the
    insert - and what is inserted is exactly that type code.  (The signature covers the raw octets, which are kept and re-emitted
    verbatim: a decoder that drops or shifts a type still validates and silently changes what the proofs say.)"""
    f = cx.fn(rule, r"<hickory_proto::rr::record_type_set::RecordTypeSet as hickory_proto::rr::RecordDataDecodable<'_>>::read_data")
    if not f:
        return
    setb = []
    for bi in range(len(f.blocks)):
        for t_, ps in (f.edge_props(bi) or {}).items():
            if any(re.search(r'^eq\(128,bitand\(.*,128\)\)$', shorten(p_)) for p_ in ps):
                setb.append(t_)
    cx.check(rule, len(setb) == 1, f.path, 'edges', 'most-significant-bit-test', str(len(setb)))
    ins = cx.calls(f, r'BTreeSet<T, A>::insert$|BTreeSet::insert$')
    cx.check(rule, len(ins) == 1, f.path, 'calls', 'single-insert', str(len(ins)))
    nxt = cx.assigns(f, r'^shl\(.*,1\)$', place=None)
    cx.check(rule, len(nxt) == 1, f.path, 'stmts', 'bit-map-shifted-left-by-one-per-bit', str(len(nxt)))
    if setb and ins and nxt:
        cx.must_pass(rule, f, nxt, via_blocks={ins[0].bb}, start_blocks=setb, what='every-set-bit-is-inserted')
        between = cx.reachable_from(f, setb, avoid_blocks=[ins[0].bb, nxt[0].bb])
        tests = [bi for bi in between if len([x for x in f.succs(bi) if not f.blocks[x]['cleanup']]) > 1
                 and not all(any(re.search(r'^!?ok\(|^!?is\(', shorten(p_)) for p_ in ps) for ps in (f.edge_props(bi) or {}).values())]
        cx.check(rule, not tests, f.path, 'guards', 'no-condition-but-index-arithmetic-between-bit-test-and-insert',
                 '; '.join(f.loc(b) for b in tests[:3]))
        t = ins[0].term
        ok = bool(re.search(r"^BTreeSet::insert\(BTreeSet::new\(\),into<RecordType>\(bitor\(shl\(into<u16>\(.*@RecordType\.window\),8\),into<u16>\(Restrict::unverified\(try\(Result::map_err\((<Result<R;A> as RestrictedMath>|RestrictedMath)::checked_add\((<Result<R;A> as RestrictedMath>|RestrictedMath)::checked_mul\(.*,8\),range::next\(Range\(0,8\)\)@Some\.0\),closure:[^)]*\)\)@Continue\.0\)\)\)\)\)$", t))
        cx.check(rule, ok, f.path, ins[0].key(), 'type=(window<<8)|((len-left)*8+bit)', t[:100] + ' ... ' + t[-160:], ins[0].loc)


def auth_filter(cx, rule, variant):
    """the filter_map closure of verify_response that selects the NSEC / NSEC3 records handed to the proof yields a record only
    if THAT record's own validation verdict is Proof::Secure.  (Until F31 the tree asked for "some record with the same owner
    is Secure", which let an unsigned NSEC at the owner of a signed RRset - the apex, next to the SOA - into the proof.)"""
    V = 'hickory_net::dnssec::DnssecDnsHandle::verify_response::{closure#0}::'
    found = 0
    for g in cx.prog.find(r'^hickory_net::dnssec::DnssecDnsHandle::verify_response::\{closure#0\}::\{closure[^}]*\}$'):
        some = [s for s in cx.returns(g, r'^Option::Some\(\(') if f'@{variant}.0' in s.term]
        if not some:
            continue
        found += 1
        cx.guard(rule, some, {'the-record-itself-is-secure': r'^eq:Proof\(Proof::Secure,arg2\.proof\)$|^eq:Proof\(arg2\.proof,Proof::Secure\)$|^is\(arg2\.proof,Secure\)$'}, expect=1, fn=g)
        for s in some:
            cx.check(rule, bool(re.search(rf'^Option::Some\(\(arg2\.name,arg2\.data@DNSSEC\.0@{variant}\.0\)\)$', s.term)), g.path, s.key(), 'yields-owner-and-rdata-of-that-record', s.term[:120], s.loc)
    cx.check(rule, found == 1, V + '*', 'filters', 'authenticated-filter-present', f'{found} {variant} filters')

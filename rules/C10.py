"""C10 — authoritative answers (RFC 1034 4.3.2): control skeleton only - delegation walk before data lookup, CNAME chase bounded
and loop-checked, NameExists/NXDOMAIN/REFUSED decision, AA/SOA/NSEC attachment, referral classification, wildcard climb."""
import re
import argnames
import helpers
from api import shorten

EXPLANATION = (
    "PATH/GUARD/REC rules over the in-memory store and the catalog (this property is a relation between arbitrary zone contents "
    "and queries; only its control skeleton is decided): (P1) inner_lookup reaches the data lookup (records.range) only after the "
    "delegation walk, and the walk returns the NS set for (NS present, no SOA) unless the query is DS at that exact name - never "
    "data from below a cut; (G1/R1) chase_cnames re-enters inner_lookup only under chain.len() < MAX_CNAME_DEPTH and a successful "
    "seen.insert(next); the inner_lookup <-> inner_lookup_wildcard recursion is cut by !is_wildcard(name) && !is_root(name); (G2) "
    "the negative decision of InMemoryZoneHandler::lookup: NameExists iff some key equals or lies below the name, else NXDOMAIN "
    "iff origin.zone_of(name), else REFUSED; (G3) build_authoritative_response sets AA on every path, attaches the SOA lookup to "
    "the authority section on negative paths, calls nsec_records/nsec3_records for negative answers under DO and for wildcard-"
    "matched answers, classifies an NS rrset as a referral (authority section, empty answer) exactly when the first record is NS "
    "and the query type is neither NS nor ANY, and otherwise puts the records in the answer section; (G4) the wildcard climb of "
    "inner_lookup_wildcard to *.parent must be guarded by a test that the intermediate name does not exist (RFC 4592 3.3.1 "
    "closest encloser) - absent today: known finding F6; (G5) InnerInMemory::find_cover, the source of every NSEC3 record the server "
    "offers as covering a hashed name, selects the greatest owner hash below the name and falls back to the greatest owner hash of "
    "the chain (the only record whose interval wraps around); (S1) sign_zone reaches sign_rrset for every RRset of the zone map before it "
    "takes the next one (no RRset - e.g. the DS at a signed delegation - is skipped).")
NOT_DECIDED = "Answer contents for all zones and queries; AA semantics on referrals; additional-section processing."
ASSUMPTIONS = ["FULL feature configuration", "BTreeMap range/get semantics"]

I = 'hickory_server::store::in_memory::inner::InnerInMemory::'


def run(cx):
    prog = cx.prog
    f = cx.fn('C10.P1', I + 'inner_lookup')
    if f:
        rng = cx.calls(f, r'BTreeMap<K, V, A>::range$|BTreeMap::range$')
        WALKED = r'^LowerName::is_root\(phi\(arg2\|LowerName::base_name\(.*\)\)\)$|^BTreeMap::contains_key\(arg1\.records,RrKey::new\(phi\(arg2\|LowerName::base_name\(.*\)\),RecordType::SOA\)\)$'
        cx.guard('C10.P1', rng, {'delegation-walk-finished(root or apex reached)': WALKED}, expect=1, fn=f)
        for s in rng:
            cx.check('C10.P1', bool(re.search(r'^BTreeMap::range\(arg1\.records,Range\(RrKey::new\(arg2,RecordType::Unknown\(const:num::MIN\)\),RrKey::new\(arg2,RecordType::Unknown\(const:num::MAX\)\)\)\)$', s.term)), f.path, s.key(), 'data-lookup-at-the-query-name', s.term[:200], s.loc)
        ref = [s for s in cx.returns(f, r'^Option::Some\(BTreeMap::get\(arg1\.records,RrKey::new\(phi\(arg2\|LowerName::base_name\(.*\)\),RecordType::NS\)\)@Some\.0\)$')]
        cx.guard('C10.P1', ref, {'ns-present': r'^ok\(BTreeMap::get\(arg1\.records,RrKey::new\(phi\(arg2\|LowerName::base_name\(.*\)\),RecordType::NS\)\)\)$',
                                 'no-soa(below-apex)': r'^!BTreeMap::contains_key\(arg1\.records,RrKey::new\(phi\(arg2\|LowerName::base_name\(.*\)\),RecordType::SOA\)\)$',
                                 'not-DS-at-the-cut': r'^!phi\(eq:LowerName\(arg2,phi\(arg2\|LowerName::base_name\(.*\)\)\)\|false\)$'}, expect=1, fn=f)
        wc = cx.calls(f, r'InnerInMemory::inner_lookup_wildcard$')
        cx.guard('C10.P1', wc, {'no-exact-or-cname-match': r'^!ok\(Option::map\(Iterator::find\(BTreeMap::range\(arg1\.records,'}, expect=1, fn=f)
        # RFC 4592 2.2.1/3.3.1: a name that exists (with other types, or as an empty non-terminal) blocks synthesis -> F6a
        NAME_ABSENT = r'^!?(?!.*closure:InnerInMemory::inner_lookup::\{closure@find#0\}).*(arg1\.records|InnerInMemory::\w*exist\w*\()'
        w0 = prog.fn(I + 'inner_lookup_wildcard')
        first = cx.assigns(w0, r'^LowerName::into_wildcard\(arg2\)$', place=None)[:1] if w0 else []
        for s in wc:
            ok = cx.has_guard(s, NAME_ABSENT) or any(cx.has_guard(x, NAME_ABSENT) for x in first)
            cx.check('C10.G4', ok and bool(first), f.path, 'call:inner_lookup_wildcard', 'wildcard-fallback-requires-query-name-absent(RFC4592-2.2.1)',
                     'inner_lookup falls back to wildcard synthesis whenever no rrset of the query type matched, also when the query name exists with other types or below it', s.loc)
        # the walk loop: every iteration that finds NS without SOA and is not the DS case returns (no way to the data lookup)
        cut = [t for bb in range(len(f.blocks)) for t, ps in f.edge_props(bb).items() if any(re.search(r'^!BTreeMap::contains_key\(arg1\.records,RrKey::new\(.*RecordType::SOA\)\)$', shorten(p)) for p in ps)]
        cx.check('C10.P1', len(cut) >= 1, f.path, 'edge', 'cut-edge-present', str(len(cut)))
    fc = None
    for g in prog.find(r'InnerInMemory::inner_lookup::\{closure[^}]*\}$'):
        t = cx.true_returns(g)
        if t and any('record_type' in (s.term + ' '.join(s.extra)) for s in t):
            fc = g
            cx.must_pass('C10.P1', g, cx.false_returns(g), via_edge=r'^!eq:RecordType\(\^arg3,arg2\.0\.record_type\)$', what='rrset-of-the-query-type-matches')
            cx.must_pass('C10.P1', g, cx.false_returns(g), via_edge=r'^!eq:RecordType\(RecordType::CNAME,arg2\.0\.record_type\)$', what='CNAME-rrset-matches-any-type')
            # and nothing but type / CNAME / ANAME-for-address-types selects an rrset
            POS = r'eq:RecordType\(\^arg3,arg2\.0\.record_type\)|eq:RecordType\(RecordType::CNAME,arg2\.0\.record_type\)|inner_lookup::aname_covers_type\(arg2\.0\.record_type,\^arg3\)'
            cx.must_pass('C10.P1', g, [x for x in t if not re.fullmatch(POS, ' '.join(x.extra))], via_edge=r'^eq:RecordType\(\^arg3,arg2\.0\.record_type\)$|^eq:RecordType\(RecordType::CNAME,arg2\.0\.record_type\)$|^inner_lookup::aname_covers_type\(arg2\.0\.record_type,\^arg3\)$', what='match=query-type-or-CNAME-or-ANAME')
    cx.check('C10.P1', fc is not None, I + 'inner_lookup', 'closure', 'match-closure-present', '')
    # ---------------------------------------------------------------- G1/R1
    c = cx.fn('C10.G1', I + 'chase_cnames')
    if c:
        il = cx.calls(c, r'InnerInMemory::inner_lookup$')
        cx.guard('C10.G1', il, {'depth-below-MAX_CNAME_DEPTH': r'^lt\(Vec::len\(.*\),const:chase_cnames::MAX_CNAME_DEPTH\)$', 'target-not-seen-before': r'^HashSet::insert\(.*\)$',
                                'last-is-CNAME': r'^is\(.*\.data,CNAME\)$'}, expect=1, fn=c)
    w = cx.fn('C10.G1', I + 'inner_lookup_wildcard')
    if w:
        il = cx.calls(w, r'InnerInMemory::inner_lookup$')
        cx.guard('C10.G1', il, {'name-not-wildcard': r'^!LowerName::is_wildcard\(arg2\)$', 'name-not-root': r'^!LowerName::is_root\(arg2\)$'}, expect=1, fn=w)
        for s in il:
            cx.check('C10.G1', bool(re.search(r'^InnerInMemory::inner_lookup\(arg1,phi\(LowerName::into_wildcard\(arg2\)\|LowerName::into_wildcard\(LowerName::base_name\(', s.term)), w.path, s.key(), 'recursion-on-a-wildcard-name', s.term[:160], s.loc)
        # ------------------------------------------------------------ G4 closest encloser (F6)
        climb = cx.assigns(w, r'^LowerName::into_wildcard\(LowerName::base_name\(', place=None)
        cx.check('C10.G4', len(climb) >= 1, w.path, 'stores', 'climb-site-present', str(len(climb)))
        EXISTS = r'BTreeMap::(range|contains_key|keys|get)\(arg1\.records|InnerInMemory::\w*exist\w*\('
        for s in climb[:1]:
            ok = cx.has_guard(s, r'^!?.*(' + EXISTS + r').*$')
            cx.check('C10.G4', ok, w.path, 'climb', 'climb-requires-intermediate-name-absent(RFC4592-3.3.1)',
                     'the wildcard search moves from *.x to *.parent(x) guarded only by "*.x not found"; RFC 4592 synthesises only from the closest encloser, so an existing x must stop the climb', s.loc)
        ne = prog.fn(I + 'name_exists::{closure@any#0}')
        if ne:      # the existence test used by both guards: a key at or below the name, nothing else
            cx.bool_exact('C10.G4', ne, 'or', [r'LowerName::zone_of\(\^arg2,RrKey::name\(arg2\)\)'], 'name-exists=some-key-at-or-below')
        syn = cx.returns(w, r'^Option::Some\(RecordSet::with_ttl\(into<Name>\(arg2\),')
        cx.guard('C10.G1', syn, {'wildcard-found': r'^ok\(InnerInMemory::inner_lookup\(arg1,phi\(LowerName::into_wildcard\('}, expect=1, fn=w)
    # ---------------------------------------------------------------- G2 negative decision
    M = '<hickory_server::store::in_memory::InMemoryZoneHandler<P> as hickory_server::zone_handler::ZoneHandler>::lookup::{closure@pin#0}'
    m = cx.fn('C10.G2', M)
    if m:
        ANY = r"Iterator::any\(BTreeMap::keys\(await\(RwLock::read\(\^arg1\.inner\)\)@Ready\.0\.records\),closure:<InMemoryZoneHandler<P> as ZoneHandler>::lookup::\{closure@pin#0\}::\{closure@any#0\}\)"
        ne = cx.assigns(m, r'^LookupError::NameExists$', place=None)
        cx.guard('C10.G2', ne, {'some-key-at-or-below-name': '^' + ANY + '$'}, expect=1, fn=m)
        nx = cx.assigns(m, r'^ResponseCode::NXDomain$', place=None)
        cx.guard('C10.G2', nx, {'no-key-at-or-below': '^!' + ANY + '$', 'name-inside-zone': r'^LowerName::zone_of\(<InMemoryZoneHandler<P> as ZoneHandler>::origin\(\^arg1\),\^arg2\)$'}, expect=1, fn=m)
        rf = cx.assigns(m, r'^ResponseCode::Refused$', place=None)
        cx.guard('C10.G2', rf, {'no-key-at-or-below': '^!' + ANY + '$', 'name-outside-zone': r'^!LowerName::zone_of\(<InMemoryZoneHandler<P> as ZoneHandler>::origin\(\^arg1\),\^arg2\)$'}, expect=1, fn=m)
        # RFC 1034 4.3.2 step 3c / RFC 4592 2.2.1: a name covered by an existing wildcard gets NODATA, not NXDOMAIN -> F6c
        for s in nx:
            cx.check('C10.G4', cx.has_guard(s, r'(?i)wildcard'), m.path, 'store:NXDomain', 'nxdomain-requires-no-source-of-synthesis(RFC1034-4.3.2-3c)',
                     'NXDOMAIN is decided from "no key at or below the name" alone; when *.closest-encloser exists without the query type the answer must be NODATA', s.loc)
        il = cx.calls(m, r'InnerInMemory::inner_lookup$')
        cx.check('C10.G2', len(il) == 1, m.path, 'calls', 'single-data-lookup', str(len(il)))
    k = cx.fn('C10.G2', M + '::{closure@any#0}')
    if k:
        cx.bool_exact('C10.G2', k, 'or', [r'eq:LowerName\(\^+arg2,RrKey::name\(arg2\)\)', r'LowerName::zone_of\(\^+arg2,RrKey::name\(arg2\)\)'], 'exists=equal-or-below')
    # ---------------------------------------------------------------- G3 response assembly
    b = cx.fn('C10.G3', 'hickory_server::zone_handler::catalog::build_authoritative_response::{closure#0}')
    if b:
        aa = cx.assigns(b, r'^true$', place=r'authoritative$')
        cx.check('C10.G3', len(aa) == 1 and not (__import__('core').path_props(b, aa[0].bb) or []), b.path, 'store', 'AA-set-unconditionally', str(len(aa)))
        ext = cx.calls(b, r'Vec<T, A> as .*Extend<T>>::extend$|Vec::extend$')
        REF = r"Option::is_some_and\(<AuthLookupIter<'r> as Iterator>::next\(AuthLookup::iter\(.*\)\),closure:catalog::build_authoritative_response::\{closure#0\}::\{closure@is_some_and#0\}\)"
        ans = [s for s in ext if '.answers,' in s.term]
        cx.guard('C10.G3', ans, {'not-a-referral': '^!' + REF + '$', 'lookup-succeeded': r'^ok\(\^arg1\)$'}, expect=1, fn=b)
        auth_ref = [s for s in ext if '.authorities,' in s.term and cx.has_guard(s, '^' + REF + '$')]
        cx.check('C10.G3', len(auth_ref) == 1, b.path, 'calls', 'referral-goes-to-authority', str(len(auth_ref)))
        soa_l = [s for s in cx.calls(b, r'ZoneHandler::lookup$') if 'RecordType::SOA' in s.term]
        cx.guard('C10.G3', soa_l, {'negative-answer': r'^!ok\(phi\(Option::Some\(\^arg1@Ok\.0\)\|Option::None\)\)$'}, expect=1, fn=b)
        for s in soa_l:
            cx.check('C10.G3', s.term.startswith('ZoneHandler::lookup(^arg2,ZoneHandler::origin(^arg2),RecordType::SOA,'), b.path, s.key(), 'soa-of-the-zone-apex', s.term[:120], s.loc)
        soa_ext = [s for s in ext if '.authorities,' in s.term and re.search(r'var\(_\d+\)\.1@Some\.0', s.term)]
        cx.check('C10.G3', len(soa_ext) == 1, b.path, 'calls', 'soa-attached-to-authority', str(len(soa_ext)))
        neg = [s for s in cx.calls(b, r'ZoneHandler::(nsec_records|nsec3_records)$') if cx.has_guard(s, r'^!ok\(phi\(Option::Some\(\^arg1@Ok\.0\)\|Option::None\)\)$')]
        cx.guard('C10.G3', neg, {'DO-set': r'^\^arg4\.dnssec_ok$'}, expect=2, fn=b)
        # RFC 4035 3.1.3.3 / RFC 5155 7.2.6: a POSITIVE answer carries NSEC / NSEC3 records only when it was synthesised from a
        # wildcard (hickory's own validator takes NSEC3 records next to an answer for a wildcard proof and calls a plain answer Bogus - F27)
        pos = [s for s in cx.calls(b, r'ZoneHandler::(nsec_records|nsec3_records)$') if cx.has_guard(s, r'^ok\(phi\(Option::Some\(\^arg1@Ok\.0\)\|Option::None\)\)$')]
        cx.check('C10.G3', len(pos) == 2, b.path, 'calls', 'positive-answer-proof-lookups(NSEC,NSEC3)', str(len(pos)))
        cx.guard('C10.G3', pos, {'wildcard-matched-answer': r'^Iterator::any\(AuthLookup::iter\(.*\),closure:catalog::build_authoritative_response::\{closure#0\}::\{closure@any#0\}\)$'}, expect=2, fn=b)
    r1 = cx.fn('C10.G3', 'hickory_server::zone_handler::catalog::build_authoritative_response::{closure#0}::{closure@is_some_and#0}')
    if r1:
        t = cx.true_returns(r1)
        cx.guard('C10.G3', t, {'first-record-is-NS': r'^eq:RecordType\(RecordType::NS,Record::record_type\(arg2\)\)$',
                               'query-type-not-NS': r'^!eq:RecordType\(RecordType::NS,LowerQuery::query_type\(\^+arg6\)\)$',
                               'query-type-not-ANY': r'^!eq:RecordType\(RecordType::ANY,LowerQuery::query_type\(\^+arg6\)\)$'}, expect=1, fn=r1)
        NEGS = r'!eq:RecordType\(RecordType::NS,Record::record_type\(arg2\)\)|eq:RecordType\(RecordType::(NS|ANY),LowerQuery::query_type\(\^+arg6\)\)'
        # nothing else decides: every path to a false return crosses the negation of one of the three conjuncts
        cx.must_pass('C10.G3', r1, [x for x in cx.false_returns(r1) if not re.fullmatch(NEGS, ' '.join(x.extra))], via_edge=r'^!eq:RecordType\(RecordType::NS,Record::record_type\(arg2\)\)$|^eq:RecordType\(RecordType::(NS|ANY),LowerQuery::query_type\(\^+arg6\)\)$',
                     what='referral-test-has-exactly-the-three-conjuncts')

    # ---------------------------------------------------------------- G5 which NSEC3 record "covers" a hashed name (RFC 5155 7.2.x)
    # every NSEC3 denial the server sends (NXDOMAIN next-closer and wildcard, wildcard answer / NODATA, opt-out DS) takes its covering
    # record from InnerInMemory::find_cover: the record with the GREATEST owner hash below the hashed name, and - when the hash sorts
    # before the whole chain - the record with the greatest owner hash of all (the only one whose interval wraps around).
    fc = cx.fn('C10.G5', 'hickory_server::store::in_memory::inner::InnerInMemory::find_cover')
    if fc:
        P = 'hickory_server::store::in_memory::inner::InnerInMemory::find_cover::'
        GREATEST = r'(Iterator::max_by_key\((?P<it>.*),closure:(?P<key>InnerInMemory::find_cover::[^()]*)\)|Iterator::last\((?P<it2>.*)\)|DoubleEndedIterator::next_back\((?P<it3>.*)\))'

        def closure_ret(name):
            g = cx.prog.fn('hickory_server::store::in_memory::inner::' + name)
            r_ = cx.returns(g, r'.') if g else []
            return r_[0].term if len(r_) == 1 else None
        oks = cx.returns(fc, r'^Result::Ok\(')
        cx.check('C10.G5', len(oks) == 1, fc.path, 'ret', 'single-selection-expression', str(len(oks)))
        for s in oks:
            m = re.match(r'^Result::Ok\((?:Option::cloned\()?Option::or_else\(' + GREATEST + r',closure:(?P<fb>InnerInMemory::find_cover::\{closure@or_else#\d+\})\)\)?\)$', s.term)
            cx.check('C10.G5', bool(m), fc.path, 'ret', 'cover=greatest-below-else-fallback', s.term[:300], s.loc)
            if not m:
                continue
            it = m.group('it') or m.group('it2') or m.group('it3')
            if m.group('key'):
                cx.check('C10.G5', closure_ret(m.group('key')) == 'RecordSet::name(arg2)', fc.path, 'ret', 'greatest-by-owner-name', str(closure_ret(m.group('key'))))
            preds = [closure_ret(c_) for c_ in re.findall(r'closure:(InnerInMemory::find_cover::\{closure@(?:filter|take_while)#\d+\})', it)]
            cx.check('C10.G5', any(p_ and re.match(r'^lt:Name\(RecordSet::name\(arg2\),try\(Nsec3QueryInfo::hashed_owner_name\(\^arg4,\^arg2,\^arg3\)\)@Continue\.0\)$', p_) for p_ in preds),
                     fc.path, 'ret', 'candidates=owner-hash-below-the-hashed-name', '; '.join(map(str, preds)))
            cx.check('C10.G5', any(p_ == 'eq:RecordType(RecordType::NSEC3,RecordSet::record_type(arg2))' for p_ in preds), fc.path, 'ret', 'candidates=NSEC3-rrsets', '; '.join(map(str, preds)))
            fb = closure_ret(m.group('fb')) or ''
            m2 = re.match('^' + GREATEST.replace('?P<it>', '?P<jt>').replace('?P<it2>', '?P<jt2>').replace('?P<it3>', '?P<jt3>').replace('?P<key>', '?P<key2>') + '$', fb)
            cx.check('C10.G5', bool(m2), P + '{closure@or_else#0}', 'ret', 'wrap-around-fallback=record-with-the-greatest-owner-hash', fb[:200],
                     sample={'fn': 'find_cover', 'fallback': fb[:120], 'holds': bool(m2)})
            if m2 and m2.group('key2'):
                cx.check('C10.G5', closure_ret(m2.group('key2')) == 'RecordSet::name(arg2)', P + '{closure@or_else#0}', 'ret', 'fallback-greatest-by-owner-name', str(closure_ret(m2.group('key2'))))

    # ---------------------------------------------------------------- S1 every RRset of a signed zone gets its RRSIGs
    # "with DO set on a signed zone, every authoritative RRset in the response carries its RRSIGs": the RRSIGs served are the ones
    # sign_zone attached.  Its loop over the zone map reaches sign_rrset for EVERY RRset before it takes the next one (an error
    # return is the only other exit); a `continue` that skips some RRsets (e.g. "everything at or below a delegation point", which
    # also skips the parent-side authoritative DS) leaves them unsigned.  The records signed are those of the zone map itself.
    sz = cx.fn('C10.S1', 'hickory_server::store::in_memory::inner::InnerInMemory::sign_zone')
    if sz:
        nx_ = [s_ for s_ in cx.calls(sz, r'Iterator>::next$|Iterator::next$') if re.search(r'arg1\.records', s_.term)]
        sg_ = cx.calls(sz, r'InnerInMemory::sign_rrset$')
        cx.check('C10.S1', len(nx_) == 1 and len(sg_) == 1, sz.path, 'calls', 'one-loop-over-the-zone-map-one-signing-call', f'next={len(nx_)} sign_rrset={len(sg_)}')
        if len(nx_) == 1 and len(sg_) == 1:
            body = []
            for t_, ps in (sz.edge_props(sz.succs(nx_[0].bb)[0]) or {}).items():
                pass
            # the loop body starts on the Some edge of next()
            for bi in range(len(sz.blocks)):
                for t_, ps in (sz.edge_props(bi) or {}).items():
                    if any(re.search(r'^ok\(<(ValuesMut|IterMut)<.*> as Iterator>::next\(BTreeMap::(values_mut|iter_mut)\(arg1\.records\)\)\)$', shorten(p_)) for p_ in ps):
                        body.append(t_)
            cx.check('C10.S1', len(body) == 1, sz.path, 'loop', 'loop-body-found', str(len(body)))
            cx.must_pass('C10.S1', sz, nx_, via_blocks={sg_[0].bb}, start_blocks=body, what='every-rrset-of-the-zone-map-is-signed-before-the-next-one')
            cx.check('C10.S1', bool(re.search(r'^InnerInMemory::sign_rrset\(Arc::make_mut\(<(ValuesMut|IterMut)<.*> as Iterator>::next\(BTreeMap::(values_mut|iter_mut)\(arg1\.records\)\)@Some\.0(\.1)?\),arg1\.secure_keys,', sg_[0].term)),
                     sz.path, sg_[0].key(), 'signs-the-map-entry-with-the-zone-keys', sg_[0].term[:200], sg_[0].loc)

    # ---------------------------------------------------------------- H helper semantics the guards above rely on (rules/helpers.py)
    helpers.check(cx, 'C10.H', ['LowerName::zone_of', 'LowerName::base_name', 'LowerName::is_wildcard', 'LowerName::into_wildcard', 'LowerName::is_root', 'RecordTypeSet::contains'])

    # ---------------------------------------------------------------- N1 argument names agree with the parameters they are bound to (engine/argnames.py)
    argnames.check(cx, 'C10.N1', r'hickory_server::store::in_memory|hickory_server::zone_handler::catalog', floor=130)
    argnames.check_fields(cx, 'C10.N1', r'hickory_server::store::in_memory|hickory_server::zone_handler::catalog', floor=6)


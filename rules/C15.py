"""C15 — cache expiry and TTL countdown: only Ok / NoRecordsFound reach the cache, expiry guard on get, stored lifetime
depends on the clamp, TTLs only written through saturating decrement."""
import re
import argnames
from api import shorten, writers

EXPLANATION = (
    "GUARD/PATH/SLICE/WRITE rules over hickory-resolver's ResponseCache: (P1) moka Cache::insert in ResponseCache::insert is "
    "reached only through the Ok arm or the Err(Dns(NoRecordsFound)) arm, every other error returns without storing; (G1) get "
    "returns Some only under Entry::is_current, which is now <= valid_until; (S1) valid_until = now + ttl; the positive ttl is "
    "min over records filtered (type == query type or type == CNAME) of their ttl, unwrap_or(positive_min) and clamped with the "
    "bounds of the *query type*; each record's own ttl is clamped with the bounds of *that record's* type for all three sections; "
    "the negative ttl is clamp(negative_min, negative_max) of the query type's negative bounds or negative_min; EntryExpiry "
    "returns valid_until - t in both hooks; (W1) on the get path Record.ttl is written only by decrement_ttl (saturating_sub of "
    "elapsed) and negative_ttl only by saturating_sub(elapsed), with elapsed = now.saturating_duration_since(original_time) "
    "(never increases, floors at zero); (T1) the recursor and caching client insert only through ResponseCache::insert (who-"
    "may-call on the moka handle); (S2) the negative TTL is min(SOA record TTL, SOA MINIMUM) of one authority-section SOA; (S3) "
    "every record the CNAME-chain rebuild of CachingClient::handle_noerror keeps carries min(chain TTL, own TTL).")
NOT_DECIDED = "Numerical lifetimes and history interleavings; moka's own eviction timing."
ASSUMPTIONS = ["FULL feature configuration", "Ord::clamp / saturating_sub semantics"]

R = 'hickory_resolver::cache::'


def run(cx):
    prog = cx.prog
    f = cx.fn('C15.P1', R + 'ResponseCache::insert')
    if f:
        ins = cx.calls(f, r'moka::sync::cache::Cache<K, V, S>::insert$|Cache::insert$')
        cx.guard('C15.P1', ins, {'ok-or-NoRecordsFound': r'^ok\(arg3\)$|^is\(arg3@Err\.0@Dns\.0,NoRecordsFound\)$'}, expect=1, fn=f)
        cx.guard('C15.P1', ins, {'ok-or-dns-error': r'^ok\(arg3\)$|^is\(arg3@Err\.0,Dns\)$'}, fn=f)
        for s in ins:
            t = s.term
            ok = bool(re.search(r'<Instant as Add<Duration>>::add\(arg4,', t)) and t.startswith('Cache::insert(arg1.cache,arg2,Entry(')
            cx.check('C15.S1', ok, f.path, s.key(), 'valid_until=now+ttl', t[:160], s.loc)
            cx.check('C15.S1', 'ResponseCache::clamp_positive_ttls(arg1,arg2.query_type,arg3@Ok.0)' in t, f.path, s.key(), 'positive-lifetime-from-clamp(query type)', t[:200], s.loc)
            NB = r'RangeInclusive::into_inner\(TtlConfig::negative_response_ttl_bounds\(arg1\.ttl_config,arg2\.query_type\)\)'
            NT = r'arg3@Err\.0@Dns\.0@NoRecordsFound\.0\.negative_ttl'
            mo = prog.fns.get(R + 'ResponseCache::insert::{closure@map_or#0}')
            if mo is not None and re.search(rf'Option::map_or\({NT},', t):
                # combinator form: negative_ttl.map_or(negative_min, |secs| from_secs(secs).clamp(negative_min, negative_max))
                cx.fn('C15.S1', mo.path)
                rets = cx.returns(mo, r'.')
                NBc = NB.replace('arg1', r'\^arg1').replace('arg2', r'\^arg2')
                okc = len(rets) == 1 and bool(re.search(rf'^Ord::clamp\(Duration::from_secs\(into<u64>\(arg2\)\),{NBc}\.0,{NBc}\.1\)$', rets[0].term))
                cx.check('C15.S1', okc, f.path, s.key(), 'negative-lifetime-clamped-with-negative-bounds(query type)', '; '.join(r.term[:200] for r in rets), s.loc)
                cx.check('C15.S1', bool(re.search(rf'Option::map_or\({NT},{NB}\.0,closure:ResponseCache::insert::\{{closure@map_or#0\}}\)', t)),
                         f.path, s.key(), 'negative-default-is-negative_min', t[:240], s.loc)
                continue
            cx.check('C15.S1', bool(re.search(rf'Ord::clamp\(Duration::from_secs\(into<u64>\({NT}@Some\.0\)\),{NB}\.0,{NB}\.1\)', t)),
                     f.path, s.key(), 'negative-lifetime-clamped-with-negative-bounds(query type)', t[:240], s.loc)
            cx.check('C15.S1', bool(re.search(rf'\|{NB}\.0\)', t)),
                     f.path, s.key(), 'negative-default-is-negative_min', t[:240], s.loc)
            cl = cx.calls(f, r'Ord::clamp$')
            cx.guard('C15.S1', cl, {'negative-ttl-present': r'^ok\(arg3@Err\.0@Dns\.0@NoRecordsFound\.0\.negative_ttl\)$'}, expect=1, fn=f)
    g = cx.fn('C15.G1', R + 'ResponseCache::get')
    if g:
        some = cx.returns(g, r'^Option::Some\(')
        cx.guard('C15.G1', some, {'entry-current': r'^Entry::is_current\(try\(Cache::get\(arg1\.cache,arg2\)\)@Continue\.0,arg3\)$'}, expect=1, fn=g)
        for s in some:
            cx.check('C15.G1', s.term == 'Option::Some(Entry::updated_ttl(try(Cache::get(arg1.cache,arg2))@Continue.0,arg3))', g.path, s.key(), 'returns-ttl-adjusted-entry', s.term, s.loc)
    ic = cx.fn('C15.G1', R + 'Entry::is_current')
    if ic:
        r = cx.returns(ic, r'.')
        cx.check('C15.G1', len(r) == 1 and r[0].term == 'le:Instant(arg2,arg1.valid_until)', ic.path, 'ret', 'now<=valid_until', '; '.join(s.term for s in r))
    # the remaining lifetime is computed by the private helper Entry::ttl, or in the hooks themselves when the helper is written out
    hooks = prog.find(r'cache::EntryExpiry as .*Expiry<.*>>::expire_after_(create|update)$')
    via_helper = prog.fn(R + 'Entry::ttl') is not None or any('Entry::ttl(' in x.term for h in hooks for x in cx.returns(h, r'.'))
    et = cx.fn('C15.S1', R + 'Entry::ttl') if via_helper else None
    if et:
        r = cx.returns(et, r'.')
        cx.check('C15.S1', len(r) == 1 and r[0].term == 'Instant::saturating_duration_since(arg1.valid_until,arg2)', et.path, 'ret', 'remaining=valid_until-t', '; '.join(s.term for s in r))
    n = 0
    for h in hooks:
        n += 1
        r = cx.returns(h, r'.')
        cx.check('C15.S1', len(r) == 1 and r[0].term in ('Option::Some(Entry::ttl(arg3,arg4))', 'Option::Some(Instant::saturating_duration_since(arg3.valid_until,arg4))'),
                 h.path, 'ret', 'expiry-mirrors-valid_until', '; '.join(s.term for s in r))
    cx.floor('C15.S1', n, 2, 'moka Expiry hooks')
    # ---------------------------------------------------------------- S4 which bounds apply to a query type
    # the lifetime L of the property is clamped with "the bounds of the query type": the limits registered for that type if there
    # are any, else the global ones - as a WHOLE (a limit the selected set leaves open is 0 s / one day, as documented; it is not
    # inherited field by field from the other set, which would raise a 10 s negative TTL to the global negative minimum)
    B_ = (r'(?:Option::unwrap_or\(HashMap::get\(arg1\.by_query_type,arg2\),arg1\.default\)|phi\(arg1\.default\|HashMap::get\(arg1\.by_query_type,arg2\)@Some\.0\)'
          r'|phi\(HashMap::get\(arg1\.by_query_type,arg2\)@Some\.0\|arg1\.default\))')
    for sign in ('positive', 'negative'):
        gb = cx.fn('C15.S4', f'hickory_resolver::cache::TtlConfig::{sign}_response_ttl_bounds')
        if gb:
            r_ = cx.returns(gb, r'.')
            ok_ = len(r_) == 1 and bool(re.search(rf'^RangeInclusive::new\(Option::unwrap_or(?:_else)?\({B_}\.{sign}_min_ttl,[^|]*\),Option::unwrap_or(?:_else)?\({B_}\.{sign}_max_ttl,[^|]*\)\)$', r_[0].term))
            cx.check('C15.S4', ok_, gb.path, 'ret', f'{sign}-bounds=(registered-for-the-type or default).{{min,max}}', '; '.join(x.term[:260] for x in r_))
    # ---------------------------------------------------------------- clamp_positive_ttls
    c = cx.fn('C15.S1', R + 'ResponseCache::clamp_positive_ttls')
    if c:
        st = cx.assigns(c, r'.', place=r'\.ttl$')
        cx.check('C15.S1', len(st) == 1, c.path, 'stores', 'single-ttl-store', str(len(st)))
        for s in st:
            ok = s.term == ('impls::clamp(var(record).ttl,TtlConfig::positive_ttl_bounds_secs(arg1.ttl_config,Record::record_type(var(record))).0,'
                            'TtlConfig::positive_ttl_bounds_secs(arg1.ttl_config,Record::record_type(var(record))).1)') or bool(
                re.match(r'^impls::clamp\((.+)\.ttl,TtlConfig::positive_ttl_bounds_secs\(arg1\.ttl_config,Record::record_type\(\1\)\)\.0,TtlConfig::positive_ttl_bounds_secs\(arg1\.ttl_config,Record::record_type\(\1\)\)\.1\)$', s.term))
            cx.check('C15.S1', ok, c.path, s.key(), 'record-ttl-clamped-with-its-own-type-bounds', s.term[:220], s.loc)
            cx.guard('C15.S1', [s], {'all-three-sections': r"^ok\(<Chain<A;B> as Iterator>::next\(Iterator::chain\(Iterator::chain\(slice::iter_mut\(arg3\.answers\),slice::iter_mut\(arg3\.authorities\)\),slice::iter_mut\(arg3\.additionals\)\)\)\)$"}, fn=c)
        r = cx.returns(c, r'.')
        want = (r'^Ord::clamp\(Option::unwrap_or\(Iterator::min\(Iterator::map\(Iterator::filter\(Message::all_sections\(arg3\),closure:(?:ResponseCache::clamp_positive_ttls|cache::\w+)::\{closure@filter#0\}\),'
                r'closure:(?:ResponseCache::clamp_positive_ttls|cache::\w+)::\{closure@map#0\}\)\),RangeInclusive::into_inner\(TtlConfig::positive_response_ttl_bounds\(arg1\.ttl_config,arg2\)\)\.0\),'
                r'RangeInclusive::into_inner\(TtlConfig::positive_response_ttl_bounds\(arg1\.ttl_config,arg2\)\)\.0,RangeInclusive::into_inner\(TtlConfig::positive_response_ttl_bounds\(arg1\.ttl_config,arg2\)\)\.1\)$')
        cx.check('C15.S1', len(r) == 1 and bool(re.search(want, r[0].term)), c.path, 'ret', 'lifetime=clamp(min(filtered ttls) or min, query-type bounds)', r[0].term[:300] if r else 'none')
        if st and r:
            cx.check('C15.S1', r[0].bb in cx.reachable_from(c, [st[0].bb]) and cx.has_guard(r[0], r'^!ok\(<Chain<A;B> as Iterator>::next\('), c.path, 'order', 'lifetime-computed-after-per-record-clamp', '')
    c0 = cx.fn('C15.S1', R + 'ResponseCache::clamp_positive_ttls::{closure@filter#0}')
    if c0:
        t = cx.true_returns(c0)
        props = set()
        for s in t:
            props |= set(s.extra)
            for p in ('eq:RecordType(^arg2,Record::record_type(arg2))', 'eq:RecordType(RecordType::CNAME,Record::record_type(arg2))'):
                if cx.has_guard(s, '^' + re.escape(p) + '$'):
                    props.add(p)
        cx.check('C15.S1', props == {'eq:RecordType(^arg2,Record::record_type(arg2))', 'eq:RecordType(RecordType::CNAME,Record::record_type(arg2))'} and len(t) == 2,
                 c0.path, 'ret', 'filter=query-type-or-CNAME', '; '.join(sorted(props)))
    c1 = cx.fn('C15.S1', R + 'ResponseCache::clamp_positive_ttls::{closure@map#0}')
    if c1:
        r = cx.returns(c1, r'.')
        cx.check('C15.S1', len(r) == 1 and r[0].term == 'Duration::from_secs(into<u64>(arg2.ttl))', c1.path, 'ret', 'key=record-ttl', '; '.join(s.term for s in r))
    # ---------------------------------------------------------------- W1 countdown
    u = cx.fn('C15.W1', R + 'Entry::updated_ttl')
    ELAPSED = r'Result::unwrap_or\(num::try_from\(Duration::as_secs\(Instant::saturating_duration_since\(arg2,arg1\.original_time\)\)\),const:num::MAX\)'
    if u:
        dec = cx.calls(u, r'Record<R>::decrement_ttl$|Record::decrement_ttl$')
        # combinator form of a countdown loop: `<records>.for_each(|record| record.decrement_ttl(elapsed))` - the for_each call stands
        # for the decrement of every record it ranges over when its closure decrements its own parameter by the captured elapsed time
        ELC = ELAPSED.replace('arg2', r'\^arg2').replace(r'arg1\.', r'\^arg1\.')
        for fe in cx.calls(u, r'Iterator::for_each$'):
            m = re.search(r',closure:Entry::updated_ttl::(\{closure@for_each#\d+\})\)$', fe.term)
            sub = prog.fns.get(u.path + '::' + m.group(1)) if m else None
            if sub is not None:
                cs = cx.calls(sub, r'Record<R>::decrement_ttl$|Record::decrement_ttl$')
                # the closure decrements its own parameter, by the captured elapsed time, unconditionally
                if len(cs) == 1 and re.search(rf'^Record::decrement_ttl\(arg2,{ELC}\)$', cs[0].term) and not cx.has_guard(cs[0], r'.'):
                    fe.term = fe.term[:-1] + ',' + cs[0].term.split(',', 1)[1].replace('^', '')
                    dec.append(fe)
        cx.floor('C15.W1', len(dec), 2, 'decrement_ttl calls in updated_ttl')
        for s in dec:
            cx.check('C15.W1', bool(re.search(rf',{ELAPSED}\)$', s.term)), u.path, s.key(), 'decrement-by-elapsed', s.term[-150:], s.loc)
        # every section of a positive response counts down: the decremented records range over answers, authorities and additionals
        pos = [s for s in dec if cx.has_guard(s, r'^ok\(arg1\.result\)$')]
        secs = {m for s in pos for m in re.findall(r'arg1\.result@Ok\.0\.(answers|authorities|additionals)\b', s.term)}
        cx.check('C15.W1', secs == {'answers', 'authorities', 'additionals'}, u.path, 'sections', 'countdown-covers-all-three-sections',
                 'records whose TTL is decremented on a cache hit come from: ' + ', '.join(sorted(secs)), pos[0].loc if pos else '')
        ss = cx.calls(u, r'num::<impl u32>::saturating_sub$|num::saturating_sub$')
        cx.check('C15.W1', len(ss) == 1 and bool(re.search(rf'^num::saturating_sub\(.*,{ELAPSED}\)$', ss[0].term)), u.path, 'call', 'negative-ttl-saturating-sub-elapsed', ss[0].term[:200] if ss else 'none')
    for sub in prog.find(r'^hickory_resolver::cache::Entry::updated_ttl::\{closure[^}]*\}'):
        for s in cx.calls(sub, r'Record<R>::decrement_ttl$|Record::decrement_ttl$'):
            cx.check('C15.W1', s.term.endswith(',^arg2)') or s.term.endswith(',^^arg2)') or 'saturating_duration_since' in s.term or bool(re.search(r',\^+[a-zA-Z(]', s.term)), sub.path, s.key(), 'decrement-by-captured-elapsed', s.term[-80:], s.loc)
    for d in prog.find(r'^hickory_proto::rr::record::Record::decrement_ttl$'):
        st = cx.assigns(d, r'.', place=r'\.ttl$')
        cx.check('C15.W1', len(st) == 1 and st[0].term == 'num::saturating_sub(arg1.ttl,arg2)', d.path, 'store', 'ttl=ttl.saturating_sub(offset)', '; '.join(s.term for s in st))
    # writers of Record.ttl inside the resolver cache module
    ws = {(w[0].path) for w in writers(prog, r'^hickory_proto::rr::record::Record$', r'^ttl$') if w[0].path.startswith('hickory_resolver::cache::') and w[4] in ('store', 'mutref')}
    cx.check('C15.W1', ws == {R + 'ResponseCache::clamp_positive_ttls'}, R, 'writers', 'ttl-writers-in-cache-module', ', '.join(sorted(ws)))
    # ---------------------------------------------------------------- T1 who inserts into moka
    callers = set()
    for g in prog.fns.values():
        if '::tests::' in g.path:
            continue
        for bi, c_, t in prog.calls_of(g):
            if any(re.search(r'^moka::sync::cache::Cache::insert$', n) for n in g.callee_names(c_)):
                callers.add(g.path)
    cx.check('C15.T1', callers == {R + 'ResponseCache::insert'}, 'moka::sync::cache::Cache::insert', 'callers', 'single-insert-path', ', '.join(sorted(callers)))

    # ---------------------------------------------------------------- S2 the negative TTL handed to the cache (RFC 2308 5)
    # "the TTL of the SOA record and the SOA MINIMUM field, whichever is lower": the value every NXDOMAIN/NODATA error carries into
    # ResponseCache::insert is computed in DnsResponse::negative_ttl
    nt = cx.fn('C15.S2', 'hickory_proto::op::dns_response::DnsResponse::negative_ttl')
    if nt:
        fam = [nt] + prog.find(r'^hickory_proto::op::dns_response::DnsResponse::negative_ttl::\{closure[^}]*\}$')
        rets = [(g, r_) for g in fam for r_ in cx.returns(g, r'.')]
        mins = [(g, r_) for g, r_ in rets if re.match(r'^Ord::min\((.+),(.+)\.minimum\)$|^Ord::min\((.+)\.minimum,(.+)\)$', r_.term)]
        cx.check('C15.S2', len(mins) == 1, nt.path, 'ret', 'negative-ttl=min(soa-record-ttl,soa-minimum)', '; '.join(r_.term[:80] for g, r_ in rets))
        for g, r_ in mins:
            t_ = r_.term
            direct = bool(re.match(r'^Ord::min\(arg2\.ttl,arg2\.data@SOA\.0\.minimum\)$|^Ord::min\(arg2\.data@SOA\.0\.minimum,arg2\.ttl\)$', t_))
            paired = t_ == 'Ord::min(arg2.0,arg2.1.minimum)' and any(r2.term == 'Option::Some((arg2.ttl,arg2.data@SOA.0))' for g2, r2 in rets)
            cx.check('C15.S2', direct or paired, g.path, r_.key(), 'both-operands-come-from-the-same-SOA-record', t_, r_.loc)
        bare = [(g, r_) for g, r_ in rets if re.search(r'\.minimum\b', r_.term) and not r_.term.startswith('Ord::min(')]
        cx.check('C15.S2', not bare, nt.path, 'ret', 'soa-minimum-never-returned-uncapped', '; '.join(r_.term[:80] for g, r_ in bare))
        src = cx.returns(nt, r'.')
        cx.check('C15.S2', any('arg1.authorities' in r_.term for r_ in src), nt.path, 'ret', 'soa-taken-from-the-authority-section', '; '.join(r_.term[:100] for r_ in src))

    # ---------------------------------------------------------------- S3 the alias TTL reaches the cache entry (CNAME chains)
    # handle_noerror rebuilds the answer section of a response that carried a whole CNAME chain; with preserve_intermediates=false
    # the CNAMEs themselves are dropped, so the smallest CNAME TTL of the chain reaches ResponseCache::insert only through the
    # TTL written onto every record the rebuild keeps.  Every Some(record) the filter yields must have passed that write.
    hn = prog.find(r'^hickory_resolver::caching_client::CachingClient::handle_noerror::\{closure@filter_map#\d+\}$')
    nkeep = 0
    for g in hn:
        keeps = cx.returns(g, r'^Option::Some\(')
        stores = [(w[1], w[2]) for w in writers(prog, r'^hickory_proto::rr::record::Record$', r'^ttl$') if w[0] is g and w[4] == 'store' and w[2] is not None]
        good = set()
        for bi, si in stores:
            st = g.blocks[bi]['s'][si]
            v = shorten(g.term_operand(st[2][1])) if st[2][0] == 'use' else ''
            if re.search(r'^Ord::min\(', v) and re.search(r'\^', v) and re.search(r'\.ttl\b', v):
                good.add(bi)
        nkeep += len(keeps)
        if keeps:
            cx.must_pass('C15.S3', g, keeps, via_blocks=good, what='kept-record-ttl=min(chain-ttl,record-ttl)')
    cx.floor('C15.S3', nkeep, 3, 'records kept by the answer-section rebuild of handle_noerror')

    # ---------------------------------------------------------------- N1 argument names agree with the parameters they are bound to (engine/argnames.py)
    argnames.check(cx, 'C15.N1', r'hickory_resolver::(cache|caching_client|lookup)', floor=55)
    argnames.check_fields(cx, 'C15.N1', r'hickory_resolver::(cache|caching_client|lookup)', floor=27)


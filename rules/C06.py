"""C06 — a signature is accepted only for the exact RRset, key and time window.
Structural clauses decided (DESIGN.md §5 C06): the RFC 4035 §5.3.1 conjunct set on the single
ValidRrsig return; the guard set of the one Ok((Secure, ttl)) in verify_rrset_with_dnskey; key
filtering in verify_rrsig_with_keys; TTL provenance; validation-cache key and expiry guard."""
import re
import argnames
import helpers
import core
from api import shorten, writers

EXPLANATION = (
    "Static GUARD/SLICE/WRITE rules over the MIR of hickory-net's validator (feature-full build, which the baseline "
    "suite never compiles): (G1) the only `ValidRrsig` return of RrsigValidity::check is cut off from the entry by every "
    "RFC 4035 5.3.1 conjunct in normal form (owner, class of every record, type covered, labels, expiration and inception "
    "through SerialNumber's PartialOrd, signer name, algorithm, key tag, zone-key flag); (G2) the only Ok((Secure,ttl)) of "
    "verify_rrset_with_dnskey requires key proof Secure, not revoked, zone key, algorithm equality, ValidRrsig, class IN and "
    "a successful verify_rrsig, and its TTL is authenticated_ttl(); (G3) verify_rrsig_with_keys only verifies keys whose "
    "proof is Secure, caps key-tag collisions and rejects wildcard-expanded NSEC/NSEC3; (W1/S1) Record.ttl is written in the "
    "validator only under (Secure, Some(ttl)); authenticated_ttl is min(record ttl, original ttl, expiration-now); (S2/G4) the "
    "cache key hashes data of every record and every RRSIG, `get` returns only under now < expiry, Net errors are not cached; all covered inputs are fed to the ONE hasher state whose "
    "finish() is the key (a per-record hash folded with a commutative operator loses order and multiplicity).")
NOT_DECIDED = ("RFC 1982 arithmetic inside SerialNumber::partial_cmp (a value computation), the cryptographic primitive, and "
               "bit-level mutation resistance beyond 'every signed field is an input of the TBS (C05) and of the cache key'.")
ASSUMPTIONS = ["FULL feature configuration (dnssec-ring); panics/unwinding edges are outside path rules",
               "required guard sets are transcribed from RFC 4035 5.3.1/5.3.3 and RFC 4034 3.1.5, not from the code"]

N = 'hickory_net::dnssec::'
SIG = r'SIG::input\(RecordRef::data\(arg1\)\)'


def signature_rules(cx, R='C06'):
    """G1-G3: when is a signature accepted (shared with C07: each chain link rests on them)"""
    # ---------------- G1: RrsigValidity::check
    f = cx.fn(R + '.G1', N + 'RrsigValidity::check')
    if f:
        sites = cx.returns(f, r'^RrsigValidity::ValidRrsig$')
        req = {
            'owner-name-equal': rf'^eq:Name\(RecordRef::name\(arg1\),RrKey::name\(arg2\)\)$',
            'type-covered-equal': rf'^eq:RecordType\(arg2\.record_type,{SIG}\.type_covered\)$',
            'labels-le-owner-labels': rf'^le\({SIG}\.num_labels,LowerName::num_labels\(arg2\.name\)\)$',
            'now-le-expiration(serial)': rf'^le:SerialNumber\(SerialNumber::new\(arg5\),{SIG}\.sig_expiration\)$',
            'inception-le-now(serial)': rf'^le:SerialNumber\({SIG}\.sig_inception,SerialNumber::new\(arg5\)\)$',
            'signer-name-equals-key-owner': rf'^eq:Name\({SIG}\.signer_name,RecordRef::name\(arg4\)\)$',
            'algorithm-equal': rf'^eq:Algorithm\(<DNSKEY as Verifier>::algorithm\(RecordRef::data\(arg4\)\),{SIG}\.algorithm\)$',
            'key-tag-equal': rf'^eq\(DNSKEY::calculate_key_tag\(RecordRef::data\(arg4\)\)@Ok\.0,{SIG}\.key_tag\)$',
            'zone-key-flag': r'^DNSKEY::zone_key\(RecordRef::data\(arg4\)\)$',
            'all-records-iterated': r'^!ok\(<Iter<.*> as Iterator>::next\(slice::iter\(arg3\.records\)\)\)$',
        }
        # class IN for *every* record (loop, !any or all idiom)
        req.pop('all-records-iterated')
        cx.guard(R + '.G1', sites, req, expect=1, fn=f)
        cx.forall(R + '.G1', f, sites, r'arg3\.records', r'^eq:DNSClass\(.*dns_class,DNSClass::IN\)$|^eq:DNSClass\(DNSClass::IN,.*dns_class\)$',
                  'every-record-class-IN')

    # ---------------- G2: verify_rrset_with_dnskey
    f = cx.fn(R + '.G2', N + 'verify_rrset_with_dnskey')
    if f:
        sites = cx.returns(f, r'Proof::Secure')
        req = {
            'key-proof-secure': r'^is\(arg2,Secure\)$',
            'not-revoked': r'^!DNSKEY::revoke\(RecordRef::data\(arg1\)\)$',
            'zone-key': r'^DNSKEY::zone_key\(RecordRef::data\(arg1\)\)$',
            'algorithm-equal': r'^eq:Algorithm\(<DNSKEY as Verifier>::algorithm\(RecordRef::data\(arg1\)\),SIG::input\(RecordRef::data\(arg3\)\)\.algorithm\)$',
            'rrsig-validity': r'^is\(RrsigValidity::check\(arg3,arg4,arg5,arg1,arg6\),ValidRrsig\)$',
            'rrsig-class-IN': r'^eq:DNSClass\(DNSClass::IN,RecordRef::dns_class\(arg3\)\)$',
            'signature-verifies': r'^ok\(Verifier::verify_rrsig\(RecordRef::data\(arg1\),arg4\.name,DNSClass::IN,RecordRef::data\(arg3\),Iterator::map\(slice::iter\(arg5\.records\),',
        }
        cx.guard(R + '.G2', sites, req, expect=1, fn=f)
        for s in sites:
            ok = bool(re.search(r'^Result::Ok\(\(Proof::Secure,Option::Some\(RRSIG::authenticated_ttl\(RecordRef::data\(arg3\),slice::first\(arg5\.records\)@Some\.0,arg6\)\)\)\)$', s.term))
            cx.check(R + '.G2', ok, f.path, s.key(), 'ttl-is-authenticated_ttl', s.term, s.loc)
        # every other Ok(..) must not carry Secure
        oks = cx.returns(f, r'^Result::Ok\(')
        cx.check(R + '.G2', len(oks) == 2, f.path, 'ok-returns', 'ok-return-count', '; '.join(s.term for s in oks))

    # ---------------- G3: verify_rrsig_with_keys
    f = cx.fn(R + '.G3', N + 'verify_rrsig_with_keys')
    if f:
        calls = cx.calls(f, r'dnssec::verify_rrset_with_dnskey$')
        cx.guard(R + '.G3', calls, {'key-proof-secure': r'^is\(RecordRef::proof\(.*@Some\.0\),Secure\)$'}, expect=1, fn=f)
        for s in calls:
            # the proof handed down is the key's own proof (not a constant)
            ok = bool(re.search(r'verify_rrset_with_dnskey\((.*@Some\.0),RecordRef::proof\(\1\),arg2,arg3,arg4,arg5\)', s.term))
            cx.check(R + '.G3', ok, f.path, s.key(), 'proof-argument-provenance', s.term[:200], s.loc)
        # wildcard-expanded NSEC/NSEC3 never reach verification
        cx.guard(R + '.G3', calls, {'nsec-not-wildcard-expanded':
                 r'^eq\(SIG::input\(RecordRef::data\(arg2\)\)\.num_labels,LowerName::num_labels\(arg3\.name\)\)$|^!eq:RecordType\(RecordType::NSEC3,arg3\.record_type\)$'}, fn=f)
        ins = cx.returns(f, r'Proof::Insecure')
        cx.guard(R + '.G3', ins, {'all-keys-insecure': r'^Option::unwrap_or\(.*,false\)$',
                                 'all-keys-seen': r'^!ok\(<FilterMap<I;F> as Iterator>::next\('}, expect=1, fn=f)
        sec = cx.returns(f, r'Proof::(Secure|Bogus|Indeterminate)')
        cx.check(R + '.G3', len(sec) == 0, f.path, 'returns', 'no-constant-proof-origin', str(sec))
        g = cx.fn(R + '.G3', N + 'verify_rrsig_with_keys::{closure@filter_map#0}')
        if g:
            some = cx.returns(g, r'^Option::Some\(')
            cx.guard(R + '.G3', some, {'collision-cap-or-first':
                     r'^le\(.*,const:dnssec::MAX_KEY_TAG_COLLISIONS\)$|^!ok\(HashMap::get_mut\('}, expect=1, fn=g)



def nsec_not_wildcard_expanded(cx, rule):
    """RFC 4035 5.4 / RFC 5155: an NSEC/NSEC3 RRset whose RRSIG Labels field is smaller than its owner's label count was itself
    synthesised from a wildcard (or replayed under another owner: the signed name is rebuilt from the Labels field) and must
    not reach signature verification - for EVERY owner, including owners whose leftmost label is `*` (num_labels already
    discounts it).  Shared by C06 (what a signature covers), C08 and C09 (only authenticated NSEC/NSEC3 enter the proofs)."""
    f = cx.fn(rule, N + 'verify_rrsig_with_keys')
    if not f:
        return
    calls = cx.calls(f, r'dnssec::verify_rrset_with_dnskey$')
    cx.guard(rule, calls, {'nsec-not-wildcard-expanded':
             r'^eq\(SIG::input\(RecordRef::data\(arg2\)\)\.num_labels,LowerName::num_labels\(arg3\.name\)\)$|^!eq:RecordType\(RecordType::NSEC3,arg3\.record_type\)$'}, expect=1, fn=f)
    return calls


def cache_key(cx, rule):
    """the validation-cache key covers every record and every RRSIG of the RRset through one sequential hasher (shared by C06 -
    'also not via a previously cached verdict' - and C07 - a cached Secure verdict must not extend to injected records)"""
    k = cx.fn(rule, N + "RrsetVerificationContext::key")
    if k:
        hashed = [s.term for s in cx.calls(k, r'Hash>::hash$|Hash::hash$')]
        need = {'record data': r'next\(slice::iter\(arg1\.rrset\.records\)\)@Some\.0\.data',
                'record name': r'next\(slice::iter\(arg1\.rrset\.records\)\)@Some\.0\.name',
                'rrsig data': r'next\(slice::iter\(arg1\.rrset\.signatures\)\)@Some\.0\.data',
                'rrset key name': r'arg1\.key\.name', 'rrset type': r'arg1\.key\.record_type'}
        for nm, rx in need.items():
            cx.check(rule, any(re.search(rx, h) for h in hashed), k.path, 'hash-inputs', 'cache-key-covers:' + nm,
                     f'{len(hashed)} hashed inputs')
        cx.check(rule, not any(re.search(r'current_time|Instant|\.ttl\b', h) for h in hashed), k.path, 'hash-inputs',
                 'cache-key-clock-independent', '')
        # every covered input reaches the key through ONE sequential hasher state: the hasher a Hash::hash call writes to is
        # found through the re-borrow chain of its second argument; a second hasher counts only if its finish() value is itself
        # hashed (unmodified) into the key hasher.  A per-record hash folded with ^ / + / | is commutative and self-cancelling
        # (a record present twice disappears from the key) and does not count.
        d = k.defs()

        def root(l, depth=0):
            while depth < 12:
                ds = d.get(l, [])
                if len(ds) != 1 or ds[0][2] != 'assign' or ds[0][3][0] not in ('ref', 'use', 'copy', 'move'):
                    return l
                pl = ds[0][3][1]
                if isinstance(pl, list) and pl and pl[0] in ('m', 'c') and len(pl) == 2:
                    pl = pl[1]
                l = pl if isinstance(pl, int) else (pl[0] if isinstance(pl, list) and isinstance(pl[0], int) else None)
                if l is None:
                    return None
                depth += 1
            return l
        hcalls, fin = [], {}
        for bi, c_, t_ in cx.prog.calls_of(k):
            nm = c_.get('res') or c_['def']
            args = t_[2]
            loc = lambda a: a[1] if isinstance(a[1], int) else a[1][0]
            if re.search(r'Hash>::hash$|Hash::hash$', nm) and len(args) == 2:
                hcalls.append((root(loc(args[0])), root(loc(args[1])), shorten(k.term_call(t_, 0))))
            elif re.search(r'Hasher>::finish$|Hasher::finish$', nm):
                fin[t_[3] if isinstance(t_[3], int) else t_[3][0]] = root(loc(args[0]))
        keyh = None
        rd = [x for x in d.get(0, []) if x[2] == 'assign' and x[3][0] == 'adt']
        if len(rd) == 1:
            ops = [root(o[1] if isinstance(o[1], int) else o[1][0]) for o in rd[0][3][3] if o[0] in ('m', 'c')]
            hs = [fin[o] for o in ops if o in fin]
            keyh = hs[0] if len(hs) == 1 else None
        feeds = {keyh}
        for _ in range(4):
            for dst, h in fin.items():
                if any(a0 == dst and h1 in feeds for a0, h1, _ in hcalls):
                    feeds.add(h)
        cx.check(rule, keyh is not None, k.path, 'ret', 'cache-key-is-a-hasher-finish', f'{len(fin)} finish() calls')
        for nm, rx in need.items():
            hs = [t for _, h1, t in hcalls if re.search(rx, t)]
            ok = bool(hs) and all(h1 in feeds for _, h1, t in hcalls if re.search(rx, t))
            cx.check(rule, ok, k.path, 'hash-inputs', 'sequential-hasher-receives:' + nm,
                     'hashed into a hasher state whose value is not (only) hashed on into the key: a commutative fold loses multiplicity and order'
                     if not ok else f'{len(hs)} call(s)', sample={'input': nm, 'holds': ok})


def run(cx):
    signature_rules(cx, 'C06')
    # ---------------- W1/S1: TTL writes in the validator, authenticated_ttl shape
    f = cx.fn('C06.W1', N + 'VerifiedRrset::update_rrset')
    ws = [w for w in writers(cx.prog, r'^hickory_proto::rr::record::Record$', r'^ttl$')
          if w[0].crate == 'hickory_net' and '::dnssec::' in w[0].path]
    cx.check('C06.W1', len(ws) >= 1 and all(w[0].path == N + 'VerifiedRrset::update_rrset' or
                                             w[0].path.startswith(N + 'VerifiedRrset') for w in ws),
             N + 'VerifiedRrset::update_rrset', 'writers', 'ttl-writer-set',
             '; '.join(f'{w[0].path} ({w[4]}) @ {w[0].loc(w[1], w[2])}' for w in ws))
    for w in ws:
        fn, bb, si = w[0], w[1], w[2]
        from api import Site
        s = Site(fn, bb, si, 'store', 'Record.ttl')
        cx.guard('C06.W1', [s], {'proof-secure': r'^is\(.*\.proof,Secure\)$|^is\(.*\.0,Secure\)$',
                                 'ttl-present': r'^ok\(.*adjusted_ttl\)$|^ok\(.*\.1\)$'}, fn=fn)
        st = fn.blocks[bb]['s'][si]
        term = shorten(fn.term_rvalue(st[2], 0))
        cx.check('C06.S1', 'adjusted_ttl' in term, fn.path, s.key(), 'ttl-from-adjusted_ttl', term[:200], s.loc)
    a = cx.fn('C06.S1', 'hickory_proto::dnssec::rdata::rrsig::RRSIG::authenticated_ttl')
    if a:
        r = cx.returns(a, r'.')
        ok = len(r) == 1 and bool(re.search(
            r'^Ord::min\(Ord::min\(arg2\.ttl,.*\.input\.original_ttl\),num::saturating_sub\(.*\.input\.sig_expiration\.0,arg3\)\)$', r[0].term))
        cx.check('C06.S1', ok, a.path, 'ret', 'min(ttl,original_ttl,expiration-now)', r[0].term if r else 'no return')

    # ---------------- S2/G4: validation cache
    cache_key(cx, 'C06.S2')
    g = cx.fn('C06.G4', N + 'ValidationCache::get')
    if g:
        some = cx.returns(g, r'^Option::Some\(')
        cx.guard('C06.G4', some, {'now-before-expiry': r'^lt:Instant\(Instant::now\(\),.*LruCache::get_mut\(.*,arg2\).*\.0\)$'},
                 expect=1, fn=g)
    v = cx.fn('C06.G4', N + 'DnssecDnsHandle::verify_rrsets::{closure#0}')
    if v:
        ins = cx.calls(v, r'ValidationCache::insert$')
        cx.guard('C06.G4', ins, {'not-a-net-error': r'^!?is\(ProofError::kind\(.*\),Net\)$|^!ok\(.*\)$|Net'}, expect=1, fn=v)
    i = cx.fn('C06.S2', N + 'ValidationCache::insert')
    if i:
        ins = cx.calls(i, r'LruCache::insert$')
        for s in ins:
            # F3: the stored expiry must depend on the signature-bounded lifetime, not only on the record TTL
            ok = bool(re.search(r'adjusted_ttl|authenticated_ttl|sig_expiration', s.term))
            cx.check('C06.S2', ok, i.path, s.key(), 'expiry-depends-on-signature-lifetime',
                     'expiry = ' + s.term[:300], s.loc)
            # ... and the signature cap is the LAST operation on the lifetime of a positive verdict: nothing (a configured
            # lower bound, a clamp) may raise the lifetime again after min(.., authenticated ttl)
            m = re.search(r'<Instant as Add<Duration>>::add\(Instant::now\(\),(.*)\),arg2\)\)?$', s.term)
            life = m.group(1) if m else ''
            CAP = r'Ord::min\((.*),Duration::from_secs\(into<u64>\(arg2@Ok\.0\.adjusted_ttl@Some\.0\)\)\)'
            capped_last = bool(re.fullmatch(CAP, life)) or bool(re.fullmatch(r'phi\((.*)\|' + CAP + r'\)', life))
            cx.check('C06.S2', capped_last, i.path, s.key(), 'signature-cap-applied-last',
                     'the cached lifetime of a Secure verdict is not min(.., authenticated ttl) at the top level: a bound applied afterwards can outlive the signature; lifetime = ' + life[:260], s.loc)
        cx.check('C06.S2', len(ins) == 1, i.path, 'calls', 'single-insert', str(len(ins)))

    # ---------------------------------------------------------------- S3 the validator's clock in serial-number space
    # RFC 4034 3.1.5: inception/expiration are compared in serial number arithmetic (mod 2^32); the clock that is compared with
    # them must be reduced the same way (a plain `as u32`), not saturated at u32::MAX - a saturated clock stops moving in 2106
    # and every signature whose window contains 0xFFFFFFFF then stays valid for ever
    vr = cx.fn('C06.S3', N + 'DnssecDnsHandle::verify_response::{closure#0}')
    if vr:
        vs = cx.calls(vr, r'DnssecDnsHandle<H>::verify_rrsets$|DnssecDnsHandle::verify_rrsets$')
        cx.check('C06.S3', len(vs) >= 3, vr.path, 'calls', 'verify_rrsets-per-section', str(len(vs)))
        for s_ in vs:
            clock = core.split_args(s_.term[s_.term.index('(') + 1:-1])[-1]
            ok = bool(re.fullmatch(r'cast<u32>\((Time::current_time\(\)|rem\(Time::current_time\(\),4294967296\)|bitand\(Time::current_time\(\),4294967295\))\)', clock))
            cx.check('C06.S3', ok, vr.path, s_.key(), 'clock=now-mod-2^32', 'current time passed to the validity check: ' + clock[:120], s_.loc)

    # ---------------------------------------------------------------- S2 (hits): "accepted records never carry a TTL longer than the remaining signature lifetime"
    # the authenticated TTL stored with a verdict is as of validation time; a hit must cap it by the entry's remaining life
    # (which insert() bounds by the signature's)
    vg = cx.fn('C06.S2', N + 'ValidationCache::get')
    if vg:
        hits = cx.returns(vg, r'^Option::Some\(')
        cx.check('C06.S2', len(hits) == 1, vg.path, 'ret', 'single-hit-return', str(len(hits)))
        ENTRY = r'try\(LruCache::get_mut\(Mutex::lock\(\^*arg1\.inner\),\^*arg2\)\)@Continue\.0'
        fam = cx.prog.find(r'^hickory_net::dnssec::ValidationCache::get::\{closure@map[^}]*\}(::\{closure@map[^}]*\})?$')
        caps = [r_ for g in fam for r_ in cx.returns(g, r'^Ord::min\(')
                if re.search(r'^Ord::min\(arg2,.*Duration::as_secs\(Instant::(duration_since|saturating_duration_since)\(' + ENTRY + r'\.0,Instant::now\(\)\)\)', r_.term)]
        stores = [s_ for g in fam for s_ in cx.assigns(g, r'^Option::map\(arg2\.adjusted_ttl,closure:', place=r'adjusted_ttl$')]
        cx.check('C06.S2', len(caps) == 1 and len(stores) == 1 and all('Result::map(' in h_.term for h_ in hits), vg.path, 'ret', 'hit-ttl-capped-by-the-entry-remaining-lifetime',
                 f'{len(caps)} caps, {len(stores)} stores; hit = ' + '; '.join(h_.term[:120] for h_ in hits), hits[0].loc if hits else '')
        cx.guard('C06.S2', hits, {'entry-not-expired': r'^lt:Instant\(Instant::now\(\),' + ENTRY + r'\.0\)$'}, fn=vg)

    # ---------------------------------------------------------------- H helper semantics the guards above rely on (rules/helpers.py)
    # ---------------- S3: the unsigned fallback of verify_dnskey_rrset comes after the signatures
    # a DNSKEY RRset whose keys are all trust anchors / DS-authenticated is accepted without a signature (the root key set), with
    # adjusted_ttl None - i.e. with the received TTL and no signature lifetime for the validation cache.  When the set DOES carry a
    # valid RRSIG the signature path must win (it caps the TTL with RRSIG::authenticated_ttl): the fallback is reached only when the
    # RRSIG loop is exhausted
    vk = cx.fn('C06.S3', N + 'DnssecDnsHandle::verify_dnskey_rrset::{closure#0}')
    if vk:
        fb = [s_ for s_ in cx.returns(vk, r'^Result::Ok\(RrsetProof\(') if re.search(r'Option::unwrap\(Vec::pop\(', s_.term)]
        cx.guard('C06.S3', fb, {'signatures-tried-before-the-unsigned-fallback': r'^!ok\(<Enumerate<I> as Iterator>::next\(Iterator::enumerate\(slice::iter\(\^arg2\.rrset\.signatures\)\)\)\)$'
                                                                                  r"|^!ok\(<Iter<'a;T> as Iterator>::next\(slice::iter\(\^arg2\.rrset\.signatures\)\)\)$"}, expect=1, fn=vk)
    helpers.check(cx, 'C06.H', ['DNSKEY::zone_key', 'DNSKEY::revoke', 'Proof::is_secure', 'SerialNumber::partial_cmp', 'LowerName::num_labels'])

    # ---------------------------------------------------------------- N1 argument names agree with the parameters they are bound to (engine/argnames.py)
    argnames.check(cx, 'C06.N1', r'hickory_net::dnssec', floor=80)
    argnames.check_fields(cx, 'C06.N1', r'hickory_net::dnssec', floor=45)


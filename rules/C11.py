"""C11 — every accepted request gets exactly one matching response from the right zone.
COUNT (send_response per path), gate order and rcode table, id/question echo provenance, longest-suffix search."""
import re
import argnames
import helpers
import core, count
from api import shorten

EXPLANATION = (
    "COUNT/GUARD/TABLE/SLICE rules over hickory-server (UDP/TCP front door, feature-full build). (N1) With the response sink as "
    "the counted effect (a call of <R as ResponseHandler>::send_response on the handler type parameter, or of a function whose "
    "bottom-up summary is known), every normal path of send_error_response, error_response_handler, "
    "ReportingResponseHandler::send_response, catalog::lookup, zone_transfer, Catalog::update, Catalog::lookup and "
    "Catalog::handle_request performs exactly one send; ServerContext::handle_request performs exactly one on every path except "
    "the two sanctioned drops (header unreadable, QR=1), which perform none; each creating call is awaited. (P1/T1) gate order "
    "header -> drop responses -> unknown opcode NOTIMP -> question FORMERR -> ACL REFUSED -> body FORMERR -> handler, each with "
    "the table's rcode constant; Catalog: EDNS version > 0 BADVERS before dispatch, Query->lookup, Update->update, other opcode "
    "NOTIMP, no zone REFUSED. (S1) every response Metadata derives from the request's id/opcode "
    "(response_from_request / Metadata::new(request id,...)) and the builder echoes the request's queries. (G1) Catalog::find "
    "tries the exact name and otherwise recurses on base_name() unless root (first hit = longest enclosing origin). (H) the ACL decision "
    "AccessControl::allow / InnerAccessControl::allow equals its table (longest-prefix match on both lists; allow wins only if more specific). "
    "(L1) UdpStream::poll_next: once poll_send_to has completed, the reply leaves the queue before the poll ends in anything but Pending (an "
    "undeliverable reply cannot wedge the UDP listener).")
NOT_DECIDED = ("Behaviour under handler panics and task cancellation (panic census of the front door is part of C01's cone), that "
               "AccessControl::allow implements longest-prefix semantics on values, ZoneHandler implementations' answers (C10), "
               "TLS/HTTPS/QUIC front ends (not in any analysed configuration).")
ASSUMPTIONS = ["a future that is created is awaited in place (checked per counted call)", "ResponseHandle::send_response is the sink (opaque, one send)",
               "handlers are reachable only through values of a ResponseHandler type (capability); ResponseHandler is Clone, clones are counted at use"]

S = 'hickory_server::'
SINK = '<hickory_server::server::response_handler::ResponseHandle as hickory_server::server::response_handler::ResponseHandler>::send_response'
HDR = r"<Header as BinDecodable<'r>>::read\(BinDecoder::new\(\^arg2\)\)"

EXPECT = {
    S + 'zone_handler::catalog::send_error_response::{closure#0}': {1},
    S + 'server::error_response_handler::{closure#0}': {1},
    '<hickory_server::server::ReportingResponseHandler<R> as hickory_server::server::response_handler::ResponseHandler>::send_response::{closure@pin#0}': {1},
    S + 'zone_handler::catalog::lookup::{closure#0}': {1},
    S + 'zone_handler::catalog::zone_transfer::{closure#0}': {1},
    S + 'zone_handler::catalog::Catalog::update::{closure#0}': {1},
    S + 'zone_handler::catalog::Catalog::lookup::{closure#0}': {1},
    '<hickory_server::zone_handler::catalog::Catalog as hickory_server::server::request_handler::RequestHandler>::handle_request::{closure@pin#0}': {1},
    S + 'server::ServerContext::handle_request::{closure#0}': {0, 1},
}


def base(f, c, t):
    d = core.strip_generics(c.get('def', ''))
    return d.endswith('ResponseHandler::send_response') and not c.get('res')


def run(cx):
    K = count.Counter(cx, base, opaque=[SINK])
    cx.check('C11.N1', SINK in cx.prog.fns, SINK, 'anchor', 'sink-present', '')
    for path, want in EXPECT.items():
        f = cx.fn('C11.N1', path)
        if not f:
            continue
        got = set(K.summary(path))
        cx.check('C11.N1', got == want, path, 'summary', 'send-count-per-path',
                 f'possible numbers of sends on a normal path: {sorted(got)}, required {sorted(want)}', f'{f.file}:{f.line}',
                 sample={'fn': shorten(path + '(')[:-1], 'sends_per_path': sorted(got), 'required': sorted(want)})
        # every counted creation is awaited in place
        inc = K.block_inc(f)
        awaited = [shorten(f.term_call(t, 0)) for bi, c, t in cx.prog.calls_of(f) if core.last2(core.strip_generics(c.get('def', ''))) == 'Future::poll'
                   or shorten(f.term_call(t, 0)).startswith('await(')]
        for bb in inc:
            t = f.blocks[bb]['t']
            if t[0] != 'call':
                continue
            term = shorten(f.term_call(t, 0))
            ok = any(term in a for a in awaited)
            cx.check('C11.N1', ok, path, f'send@{shorten(f.callee_names(t[1])[-1] + "(")[:-1]}', 'created-future-is-awaited', term[:160], f.loc(bb))
    # the two sanctioned drops of the front door, and nothing else, send nothing
    f = cx.fn('C11.N1', S + 'server::ServerContext::handle_request::{closure#0}')
    if f:
        DROP1 = rf'^!ok\({HDR}\)$'
        DROP2 = rf'^eq:MessageType\({HDR}@Ok\.0\.metadata\.message_type,MessageType::Response\)$'

        def no_drop(bb, s, props):
            return not any(re.search(DROP1, shorten(p)) or re.search(DROP2, shorten(p)) for p in props)
        rets = K.walk(f, edge_ok=no_drop)
        got = set().union(*rets.values()) if rets else set()
        cx.check('C11.N1', got == {1}, f.path, 'non-drop-paths', 'exactly-one-send-when-not-dropped', f'counts {sorted(got)}', f'{f.file}:{f.line}')
        for nm, rx in (('short-header', DROP1), ('is-a-response', DROP2)):
            tg = [(bb, s) for bb in range(len(f.blocks)) for s, ps in f.edge_props(bb).items() if any(re.search(rx, shorten(p)) for p in ps)]
            cx.check('C11.N1', len(tg) == 1, f.path, 'drop:' + nm, 'drop-edge-present', f'{len(tg)} edges')
            for bb, s in tg:
                r2 = K.walk(f, start=s)
                g2 = set().union(*r2.values()) if r2 else set()
                before = K.walk(f) and K.last.get(bb, set())
                cx.check('C11.N1', g2 == {0} and before == {0}, f.path, 'drop:' + nm, 'no-send-on-drop', f'after={sorted(g2)} before={sorted(before)}', f.loc(bb))

        # ------------------------------------------------------------ P1/T1 gates of the front door
        errs = cx.calls(f, r'server::error_response_handler$')
        cx.check('C11.T1', len(errs) == 4, f.path, 'gates', 'gate-count', f'{len(errs)} error gates, 4 reviewed')
        hdr_ok = {'header-read': rf'^ok\({HDR}\)$', 'not-a-response': '^!' + DROP2[1:]}
        KNOWN_OP = rf'^in\({HDR}@Ok\.0\.metadata\.op_code,Query\|Status\|Notify\|Update\)$'
        QOK = r'^ok\(Queries::read\(BinDecoder::new\(\^arg2\),'
        ALLOW = r'^AccessControl::allow\(\^arg1\.access,SocketAddr::ip\(\^arg3\)\)$'
        table = [
            ('NotImp', dict(hdr_ok, **{'opcode-unknown': rf'^is\({HDR}@Ok\.0\.metadata\.op_code,Unknown\)$'}), r'Option::None,ResponseCode::NotImp,'),
            ('FormErr-question', dict(hdr_ok, **{'opcode-known': KNOWN_OP, 'question-unreadable': '^!' + QOK[1:]}), r'Option::None,ResponseCode::FormErr,'),
            ('Refused', dict(hdr_ok, **{'opcode-known': KNOWN_OP, 'question-read': QOK, 'acl-denied': '^!' + ALLOW[1:]}), r'Option::Some\(Queries::read\(.*\)@Ok\.0\),ResponseCode::Refused,'),
            ('FormErr-body', dict(hdr_ok, **{'opcode-known': KNOWN_OP, 'question-read': QOK, 'acl-allowed': ALLOW,
                                             'body-unreadable': r'^!ok\(MessageRequest::read_with_queries\('}), r'Option::Some\(.*\),ResponseCode::FormErr,'),
        ]
        used = []
        for nm, req, argrx in table:
            ss = [s for s in errs if re.search(argrx, s.term) and s not in used]
            ss = ss[:1]
            used += ss
            cx.check('C11.T1', len(ss) == 1, f.path, 'gate:' + nm, 'gate-present', f'{len(ss)} calls with rcode/arguments /{argrx}/')
            cx.guard('C11.P1', ss, req, fn=f)
            for s in ss:
                ok = bool(re.search(rf'^server::error_response_handler\(\^arg4,\^arg3,{HDR}@Ok\.0,', s.term)) and s.term.rstrip(')').endswith('^arg5')
                cx.check('C11.S1', ok, f.path, s.key(), 'error-response-built-from-request-header', s.term[:200], s.loc)
        hs = cx.calls(f, r'RequestHandler::handle_request$')
        cx.guard('C11.P1', hs, dict(hdr_ok, **{'opcode-known': KNOWN_OP, 'question-read': QOK, 'acl-allowed': ALLOW,
                                               'body-read': r'^ok\(MessageRequest::read_with_queries\('}), expect=1, fn=f)
    # error_response_handler: metadata from the header it was given, queries echoed
    e = cx.fn('C11.S1', S + 'server::error_response_handler::{closure#0}')
    if e:
        em = cx.calls(e, r'MessageResponseBuilder::error_msg$')
        cx.check('C11.S1', len(em) == 1 and bool(re.search(r'error_msg\(.*,\^arg3,\^arg5\)$', em[0].term)), e.path, 'call', 'error_msg(header,rcode)',
                 em[0].term[:200] if em else 'none')
        nb = cx.calls(e, r'MessageResponseBuilder::new$')
        cx.check('C11.S1', len(nb) == 1 and '^arg4' in nb[0].term, e.path, 'call', 'builder-echoes-request-queries', nb[0].term[:160] if nb else 'none')
    m = cx.fn('C11.S1', 'hickory_proto::op::header::Metadata::response_from_request')
    if m:
        r = cx.returns(m, r'.') + cx.assigns(m, r'.', place=r'^_0\.')
        txt = ' '.join(s.term for s in r)
        ids = cx.assigns(m, r'^arg1\.id$', place=None)
        ops = cx.assigns(m, r'^arg1\.op_code$', place=None)
        rsp = cx.assigns(m, r'^MessageType::Response$', place=None)
        cx.check('C11.S1', bool(ids) and bool(ops) and bool(rsp), m.path, 'fields', 'copies-id-opcode-sets-QR', f'id={len(ids)} op={len(ops)} qr={len(rsp)} {txt[:100]}')
    # every Metadata::new in the server carries the request's id
    for g in cx.prog.fns.values():
        if g.crate != 'hickory_server':
            continue
        for s in cx.calls(g, r'op::header::Metadata::new$'):
            ok = bool(re.search(r'^Metadata::new\((\^?arg\d+|deep\(_\d+\)|[^,]*?)(\.message)?\.metadata\.id,MessageType::Response,', s.term))
            cx.check('C11.S1', ok, g.path, s.key(), 'response-id-from-request', s.term[:160], s.loc)
    # ---------------------------------------------------------------- Catalog gates
    c = cx.fn('C11.T1', '<hickory_server::zone_handler::catalog::Catalog as hickory_server::server::request_handler::RequestHandler>::handle_request::{closure@pin#0}')
    if c:
        se = cx.calls(c, r'catalog::send_error_response$')
        bad = [s for s in se if 'ResponseCode::BADVERS' in s.term]
        cx.guard('C11.T1', bad, {'edns-version-above-0': r'^lt\(0,Edns::version\(\^arg2\.edns@Some\.0\)\)$'}, expect=1, fn=c)
        lk = cx.calls(c, r'Catalog::lookup$')
        up = cx.calls(c, r'Catalog::update$')
        VER = r'^le\(Edns::version\(\^arg2\.edns@Some\.0\),0\)$|^!ok\(\^arg2\.edns\)$'
        cx.guard('C11.T1', lk, {'opcode-Query': r'^is\(\^arg2\.metadata\.op_code,Query\)$', 'is-a-query': r'^is\(\^arg2\.metadata\.message_type,Query\)$', 'edns-version-ok': VER}, expect=1, fn=c)
        cx.guard('C11.T1', up, {'opcode-Update': r'^is\(\^arg2\.metadata\.op_code,Update\)$', 'is-a-query': r'^is\(\^arg2\.metadata\.message_type,Query\)$', 'edns-version-ok': VER}, expect=1, fn=c)
        ni = [s for s in se if 'ResponseCode::NotImp' in s.term]
        cx.guard('C11.T1', ni, {'other-opcode': r'^in\(\^arg2\.metadata\.op_code,Status\|Notify\|Unknown\)$'}, expect=1, fn=c)
        cx.check('C11.T1', len(se) == 3, c.path, 'gates', 'error-gate-count', f'{len(se)}')
    cl = cx.fn('C11.T1', S + 'zone_handler::catalog::Catalog::lookup::{closure#0}')
    if cl:
        rf = [s for s in cx.calls(cl, r'catalog::send_error_response$') if 'ResponseCode::Refused' in s.term]
        cx.guard('C11.T1', rf, {'no-enclosing-zone': r'^!ok\(Catalog::find\(\^arg1,LowerQuery::name\(.*\)\)\)$'}, expect=1, fn=cl)
        dl = cx.calls(cl, r'catalog::lookup$|catalog::zone_transfer$')
        cx.guard('C11.T1', dl, {'zone-found': r'^ok\(Catalog::find\(\^arg1,LowerQuery::name\(.*\)\)\)$'}, expect=2, fn=cl)
        for s in dl:
            cx.check('C11.G1', bool(re.search(r'Catalog::find\(\^arg1,LowerQuery::name\(.*\)\)@Some\.0', s.term)), cl.path, s.key(), 'handlers-are-the-found-zone', s.term[:200], s.loc)
    se_ = cx.fn('C11.S1', S + 'zone_handler::catalog::send_error_response::{closure#0}')
    if se_:
        em = cx.calls(se_, r'MessageResponseBuilder::error_msg$')
        ok = len(em) == 1 and bool(re.search(r'MessageResponseBuilder::new\(\^arg1(\.message)?\.queries,', em[0].term)) and bool(re.search(r',\^arg1(\.message)?\.metadata,\^arg2\)$', em[0].term))
        cx.check('C11.S1', ok, se_.path, 'call', 'error_msg(request queries, request metadata, rcode)', em[0].term[:220] if em else 'none')
    # ---------------------------------------------------------------- G1 longest-suffix search
    fd = cx.fn('C11.G1', S + 'zone_handler::catalog::Catalog::find')
    iterative = False
    if fd:
        r = cx.returns(fd, r'.')
        ok = len(r) == 1 and bool(re.search(r'^Option::or_else\(HashMap::get\(arg1\.handlers,arg2\),closure:Catalog::find::\{closure@or_else#0\}\)$', r[0].term))
        if not ok and not cx.prog.fn(S + 'zone_handler::catalog::Catalog::find::{closure@or_else#0}'):
            # the same search written as a loop: try the name, then walk up one label at a time until a zone is found or the root was tried
            iterative = True
            CUR = r'phi\((<LowerName as Clone>::clone\(arg2\)|arg2)\|LowerName::base_name\(rec\(_\d+\)\)\)'
            hits = [x for x in r if re.fullmatch(r'Option::Some\(HashMap::get\(arg1\.handlers,(arg2|' + CUR + r'|LowerName::base_name\(' + CUR + r'\))\)@Some\.0\)', x.term)]
            none = [x for x in r if x.term == 'Option::None']
            cx.check('C11.G1', len(hits) >= 2 and len(none) == 1 and len(hits) + len(none) == len(r), fd.path, 'ret', 'exact-name-first-then-parent(loop form)', '; '.join(s_.term[:120] for s_ in r))
            first = [x for x in hits if re.fullmatch(r'Option::Some\(HashMap::get\(arg1\.handlers,arg2\)@Some\.0\)', x.term)]
            cx.check('C11.G1', len(first) == 1, fd.path, 'ret', 'exact-name-tried-first', str(len(first)))
            for x in hits:
                if x not in first:
                    cx.check('C11.G1', cx.has_guard(x, r'^!ok\(HashMap::get\(arg1\.handlers,arg2\)\)$'), fd.path, x.key(), 'parent-only-after-the-exact-name-missed', x.term[:100], x.loc)
            cx.guard('C11.G1', none, {'only-at-root': r'^LowerName::is_root\(' + CUR + r'\)$'}, expect=1, fn=fd)
            step = [x for x in cx.calls(fd, r'LowerName::base_name$') if re.fullmatch(r'LowerName::base_name\(' + CUR + r'\)', x.term)]
            cx.guard('C11.G1', step, {'not-root': r'^!LowerName::is_root\(' + CUR + r'\)$'}, expect=1, fn=fd)
        else:
            cx.check('C11.G1', ok, fd.path, 'ret', 'exact-name-first-then-parent', '; '.join(s.term[:160] for s in r))
    fc = cx.fn('C11.G1', S + 'zone_handler::catalog::Catalog::find::{closure@or_else#0}') if not iterative else None
    if fc:
        rec = cx.returns(fc, r'^Catalog::find\(')
        cx.guard('C11.G1', rec, {'not-root': r'^!LowerName::is_root\(\^arg2\)$'}, expect=1, fn=fc)
        for s in rec:
            cx.check('C11.G1', s.term == 'Catalog::find(^arg1,LowerName::base_name(^arg2))', fc.path, s.key(), 'recurse-on-immediate-parent', s.term, s.loc)
        non = cx.returns(fc, r'^Option::None$')
        cx.guard('C11.G1', non, {'only-at-root': r'^LowerName::is_root\(\^arg2\)$'}, expect=1, fn=fc)

    # ---------------------------------------------------------------- L1 an undeliverable reply never blocks the UDP listener
    # handle_udp polls UdpStream::poll_next and `continue`s on every error but NotConnected.  poll_next sends the head of the reply
    # queue before it receives anything: once poll_send_to has completed (Ok or Err) the reply must leave the queue before the poll
    # can end in anything but Pending, or the same undeliverable reply (EMSGSIZE for a 65535-octet reply, an unreachable source) is
    # peeked again on every later poll and no request is ever received again ("no request content makes the handler stop serving")
    us = cx.fn('C11.L1', r'<hickory_net::udp::udp_stream::UdpStream<P> as futures_core::stream::Stream>::poll_next')
    if us:
        snd = cx.calls(us, r'DnsUdpSocket::poll_send_to$')
        pop = cx.calls(us, r'<futures_util::stream::stream::peek::Peekable<S> as futures_core::stream::Stream>::poll_next$|Peekable<.*> as .*Stream>::poll_next$')
        cx.check('C11.L1', len(snd) == 1 and len(pop) == 1, us.path, 'calls', 'one-send-one-pop', f'send={len(snd)} pop={len(pop)}')
        if snd and pop:
            done = [x for x in us.succs(snd[0].bb) if not us.blocks[x]['cleanup']]
            after = cx.reachable_from(us, done)
            late = [r_ for r_ in cx.returns(us, r'.') if r_.bb in after and r_.term != 'Poll::Pending']
            cx.must_pass('C11.L1', us, late, via_blocks={pop[0].bb}, start_blocks=done, what='send-completed=>reply-popped-before-the-poll-ends')
            cx.floor('C11.L1', len(late), 2, 'non-Pending returns of UdpStream::poll_next after a send attempt')

    # ---------------------------------------------------------------- H helper semantics the guards above rely on (rules/helpers.py)
    helpers.check(cx, 'C11.H', ['Edns::version', 'LowerName::base_name', 'LowerName::is_root', 'AccessControl::allow'])

    # ---------------------------------------------------------------- N1 argument names agree with the parameters they are bound to (engine/argnames.py)
    argnames.check(cx, 'C11.N1', r'hickory_server::server|hickory_server::zone_handler::catalog|hickory_server::access', floor=45)
    argnames.check_fields(cx, 'C11.N1', r'hickory_server::server|hickory_server::zone_handler::catalog|hickory_server::access', floor=29)


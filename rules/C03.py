"""C03 — size-limited encoding: all buffer writes go through the size-guarded writer; offset rewinds
are paired with a buffer truncate; TC/count dataflow; limit selection per protocol."""
import re
import argnames
import helpers
from api import shorten, writers, Site

EXPLANATION = (
    "WRITE/GUARD/PATH/SLICE/TABLE rules over hickory-proto's encoder and the server's response path: (W1) the backing Vec of an "
    "encoder is borrowed mutably only inside encoder::private::MaximalBuf::{write,reserve,truncate} and BinEncoder reaches its "
    "MaximalBuf only in emit_slice/place/trim/set_max_size/Rollback::rollback; (G1) every growing mutation of the Vec in write "
    "and reserve is cut off from the entry by offset+len <= max_size, so no encode ever holds more than max_size octets - the one "
    "clause decided for all inputs; (P1) every store to BinEncoder.offset that is not an increment is followed on every path by a "
    "truncate of the buffer to that offset (trim / MaximalBuf::truncate) or by a restore of the saved offset; (W2) the name "
    "pointer table is append-only outside trim/rollback (rollback by length is only sound then); (G2) emit_iter rolls back iff "
    "the error is MaxBufferSizeExceeded and reports NotAllRecordsWritten{count} with count = completed items; (S1) the header "
    "written by place.replace uses the four counts returned by the section emitters, and TC can stay clear only if neither the "
    "input TC nor any of the three truncated flags is set; (T1) MessageResponse::encode limits UDP to min(response EDNS payload, largest datagram: F36) "
    "or 512, other protocols to u16::MAX, the fallback to 512; Catalog advertises max(request payload, 512); "
    "ResponseHandle::send_response sends exactly the buffer returned by encode(self.protocol).")
NOT_DECIDED = ("That the surviving records are a prefix per section and that the bytes decode to the same records - value properties; "
               "an OPT/TSIG record that itself does not fit is covered only through P1 (no bytes of an abandoned item remain).")
ASSUMPTIONS = ["FULL feature configuration", "Vec<u8> API semantics (extend/resize/truncate/copy_from_slice)"]

E = 'hickory_proto::serialize::binary::encoder::'
GROW = r'Extend<.*>>::extend$|Vec::resize$|Vec::push$|Vec::extend_from_slice$|Vec::insert$|Vec::append$|Vec::reserve$|Vec::set_len$'


def run(cx):
    prog = cx.prog
    # ---------------------------------------------------------------- W1 who touches the Vec
    ws = [w for w in writers(prog, r'encoder::private::MaximalBuf$', r'^buffer$') if w[4] != 'construct']
    allowed = {E + 'private::MaximalBuf::write', E + 'private::MaximalBuf::reserve', E + 'private::MaximalBuf::truncate'}
    bad = [w for w in ws if w[0].path not in allowed]
    cx.check('C03.W1', not bad and len(ws) >= 3, E + 'private::MaximalBuf', 'writers', 'vec-mutable-borrowers',
             '; '.join(f'{w[0].path} @ {w[0].loc(w[1], w[2])}' for w in bad) or f'{len(ws)} mutable borrows in {len(set(w[0].path for w in ws))} fns')
    ws2 = [w for w in writers(prog, r'encoder::BinEncoder$', r'^buffer$') if w[4] != 'construct']
    allowed2 = {E + 'BinEncoder::emit_slice', E + 'BinEncoder::place', E + 'BinEncoder::trim', E + 'BinEncoder::set_max_size', E + 'Rollback::rollback'}
    bad2 = [w for w in ws2 if w[0].path not in allowed2]
    cx.check('C03.W1', not bad2 and len(ws2) >= 4, E + 'BinEncoder', 'writers', 'maximalbuf-mutable-borrowers',
             '; '.join(f'{w[0].path} @ {w[0].loc(w[1], w[2])}' for w in bad2) or f'{len(ws2)} mutable borrows')
    # which MaximalBuf method each BinEncoder method may call
    tab = {E + 'BinEncoder::emit_slice': {'write'}, E + 'BinEncoder::place': {'reserve'}, E + 'BinEncoder::trim': {'truncate'},
           E + 'BinEncoder::set_max_size': {'set_max_size'}, E + 'Rollback::rollback': {'truncate'}}
    for fp, want in tab.items():
        f = cx.fn('C03.W1', fp)
        if f:
            got = {n.rsplit('::', 1)[-1] for bi, c, t in prog.calls_of(f) for n in f.callee_names(c) if 'private::MaximalBuf::' in n}
            cx.check('C03.W1', got == want, fp, 'calls', 'maximalbuf-methods-used', f'{sorted(got)} vs reviewed {sorted(want)}')
    # ---------------------------------------------------------------- G1 size guard
    for fp, guard in ((E + 'private::MaximalBuf::write', r'^le\(addwithoverflow\(arg2,slice::len\(arg3\)\)\.0,arg1\.max_size\)$'),
                      (E + 'private::MaximalBuf::reserve', r'^le\(addwithoverflow\(arg2,arg3\)\.0,arg1\.max_size\)$')):
        f = cx.fn('C03.G1', fp)
        if not f:
            continue
        muts = cx.calls(f, GROW + r'|IndexMut<.*>>::index_mut$|slice::copy_from_slice$')
        cx.guard('C03.G1', muts, {'offset+len<=max_size': guard}, fn=f)
        cx.floor('C03.G1', len(muts), 1 if fp.endswith('reserve') else 4, f'mutations in {fp}')
        oks = cx.returns(f, r'^Result::Ok\(')
        cx.guard('C03.G1', oks, {'offset+len<=max_size': guard}, fn=f)
        # resize targets are exactly the guarded end
        for s in cx.calls(f, r'Vec::resize$'):
            ok = bool(re.search(r'^Vec::resize\(arg1\.buffer,addwithoverflow\(arg2,(slice::len\(arg3\)|arg3)\)\.0,0\)$', s.term))
            cx.check('C03.G1', ok, fp, s.key(), 'resize-to-guarded-end', s.term, s.loc)
    t = cx.fn('C03.G1', E + 'private::MaximalBuf::truncate')
    if t:
        cs = [n for bi, c, tt in prog.calls_of(t) for n in t.callee_names(c)]
        cx.check('C03.G1', all(n.endswith('Vec::truncate') or 'deref' in n.lower() for n in cs) and any(n.endswith('Vec::truncate') for n in cs),
                 t.path, 'calls', 'truncate-only-shrinks', ', '.join(cs))
    # ---------------------------------------------------------------- P1 rewind / truncate pairing
    stores = [w for w in writers(prog, r'encoder::BinEncoder$', r'^offset$') if w[4] == 'store']
    n_rewind = 0
    for f, bb, si, of, how in stores:
        st = f.blocks[bb]['s'][si]
        term = shorten(f.term_rvalue(st[2], 0))
        base = st[1][0] if isinstance(st[1], list) else st[1]
        # increment of the same encoder's offset?
        if re.match(r'^addwithoverflow\((arg\d+)\.offset,.*\)\.0$', term):
            continue
        m = re.match(r'^(arg\d+)\.offset$', term)
        if m and 'BinEncoder' in f.locals[int(m.group(1)[3:])]:
            continue        # restore of a value read from the encoder's own offset earlier in this function
        n_rewind += 1
        site = Site(f, bb, si, 'store', 'BinEncoder.offset=' + term[:50], label='rewind')
        via = {s.bb for s in cx.calls(f, r'BinEncoder::trim$|private::MaximalBuf::truncate$')}
        for w2 in stores:
            if w2[0] is f and (w2[1], w2[2]) != (bb, si):
                t2 = shorten(f.term_rvalue(f.blocks[w2[1]]['s'][w2[2]][2], 0))
                m2 = re.match(r'^(arg\d+)\.offset$', t2)
                if m2 and 'BinEncoder' in f.locals[int(m2.group(1)[3:])]:
                    via.add(w2[1])
        rets = [Site(f, i, None, 'ret', 'return', label='return') for i, b in enumerate(f.blocks) if b['t'][0] == 'return' and not b['cleanup']]
        emits = cx.calls(f, r'BinEncoder::emit|BinEncodable::emit$|BinEncoder::write') if False else []
        ok = True
        if bb in via:
            reach_ = set()
        else:
            reach_ = cx.reachable_from(f, f.succs(bb), avoid_blocks=via)
        leaks = [r for r in rets if r.bb in reach_]
        cx.check('C03.P1', not leaks, f.path, site.key(), 'rewind-paired-with-truncate-or-restore',
                 f'offset rewound to `{term}`; a path reaches return without trim/truncate/restore', site.loc,
                 sample={'fn': shorten(f.path + '(')[:-1], 'rewind_to': term, 'paired_by_blocks': sorted(via), 'holds': not leaks})
    cx.floor('C03.P1', n_rewind, 3, 'offset rewind sites (Name::emit, Place::replace, Rollback::rollback)')
    # ---------------------------------------------------------------- W2 name pointer table is append-only outside trim/rollback
    ptab = {E + 'BinEncoder::store_label_pointer': {'Vec::push'}, E + 'BinEncoder::trim': {'Vec::retain'}, E + 'Rollback::rollback': {'Vec::truncate'}}
    ws3 = [w for w in writers(prog, r'encoder::BinEncoder$', r'^name_pointers$') if w[4] != 'construct']
    cx.check('C03.W2', {w[0].path for w in ws3} == set(ptab), E + 'BinEncoder', 'writers', 'name-pointer-writers', ', '.join(sorted({w[0].path for w in ws3})))
    for fp, want in ptab.items():
        f = cx.fn('C03.W2', fp)
        if not f:
            continue
        got = set()
        for s in cx.calls(f, r'^alloc::vec::Vec<T, A>::|Vec::'):
            if re.search(r'^Vec::\w+\((arg\d+)\.name_pointers', s.term):
                nm = s.term.split('(')[0]
                if nm not in ('Vec::len', 'Vec::iter', 'Vec::is_empty', 'Vec::deref'):
                    got.add(nm)
        cx.check('C03.W2', got == want, fp, 'calls', 'name-pointer-mutations', f'{sorted(got)} vs reviewed {sorted(want)} (rollback truncates by length: the table must only grow in between)')
    # ---------------------------------------------------------------- G2 emit_iter
    f = cx.fn('C03.G2', E + 'BinEncoder::emit_iter')
    if f:
        rb = cx.calls(f, r'Rollback::rollback$')
        cx.guard('C03.G2', rb, {'size-exceeded': r'^is\(BinEncodable::emit\(.*\)@Err\.0,MaxBufferSizeExceeded\)$'}, expect=1, fn=f)
        for s in rb:
            cx.check('C03.G2', s.term == 'Rollback::rollback(Rollback(arg1.offset,Vec::len(arg1.name_pointers)),arg1)', f.path, s.key(), 'rollback-point-is-pre-item-state', s.term, s.loc)
        narw = cx.assigns(f, r'^ProtoError::NotAllRecordsWritten\(', place=None)
        for s in narw:
            cx.check('C03.G2', bool(re.search(r'^ProtoError::NotAllRecordsWritten\(phi\(0\|addwithoverflow\(rec\(_\d+\),1\)\.0\)\)$', s.term)), f.path, s.key(), 'count-is-completed-items', s.term, s.loc)
            cx.check('C03.G2', bool(rb) and s.bb in cx.reachable_from(f, [rb[0].bb]), f.path, s.key(), 'reported-after-rollback', '', s.loc)
        cx.check('C03.G2', len(narw) == 1, f.path, 'sites', 'single-NotAllRecordsWritten', str(len(narw)))
        # the count is incremented only after a successful emit
        inc = cx.assigns(f, r'^addwithoverflow\(.*,1\)\.0$', place=None)
        cx.guard('C03.G2', inc, {'item-emitted': r'^ok\(BinEncodable::emit\('}, fn=f)
    # ---------------------------------------------------------------- S1 header counts and TC
    f = cx.fn('C03.S1', 'hickory_proto::op::message::emit_message_parts')
    if f:
        rp = cx.calls(f, r'Place::replace$')
        cx.check('C03.S1', len(rp) == 1, f.path, 'calls', 'single-header-backpatch', str(len(rp)))
        for s in rp:
            for nm, rx in (('queries', r'try_from\(try\(EmitAndCount::emit\(arg2,arg8\)\)@Continue\.0\)@Ok\.0'),
                           ('answers', r'try\(message::count_was_truncated\(EmitAndCount::emit\(arg3,arg8\)\)\)@Continue\.0\.0'),
                           ('authorities', r'try\(message::count_was_truncated\(EmitAndCount::emit\(arg4,arg8\)\)\)@Continue\.0\.0'),
                           ('additionals', r'var\(\w+\)\.0')):
                cx.check('C03.S1', bool(re.search(rx, s.term)), f.path, s.key(), 'header-count-from-emitter:' + nm, s.term[:300], s.loc)
            cx.check('C03.S1', bool(re.search(r'^Place::replace\(try\(BinEncoder::place\(arg8\)\)@Continue\.0,arg8,Header\(', s.term)), f.path, s.key(), 'backpatch-at-reserved-place', s.term[:120], s.loc)
        tc = cx.assigns(f, r'.', place=r'truncation$')
        # the value stored is built by a `||` chain: look at the definitions that feed the store
        clear = []
        for s in tc:
            st = f.blocks[s.bb]['s'][s.si]
            rv = st[2]
            if rv[0] == 'use' and rv[1][0] in ('c', 'm') and isinstance(rv[1][1], int):
                for d in f.defs().get(rv[1][1], []):
                    if d[2] == 'assign':
                        tt = shorten(f.term_rvalue(d[3], 0))
                        if tt != 'true':
                            clear.append(Site(f, d[0], d[1], 'def', tt, label='TC-may-stay-clear'))
        cx._number(clear)
        cx.guard('C03.S1', clear, {'input-TC-clear': r'^!arg1\.truncation$',
                                   'answers-not-truncated': r'^!try\(message::count_was_truncated\(EmitAndCount::emit\(arg3,arg8\)\)\)@Continue\.0\.1$',
                                   'authorities-not-truncated': r'^!try\(message::count_was_truncated\(EmitAndCount::emit\(arg4,arg8\)\)\)@Continue\.0\.1$'}, fn=f)
        for s in clear:
            cx.check('C03.S1', bool(re.search(r'var\(\w+\)\.1$', s.term)), f.path, s.key(), 'TC-takes-additional-flag', s.term, s.loc)
        cx.check('C03.S1', len(clear) == 1, f.path, 'sites', 'TC-store-present', f'{len(tc)} stores, {len(clear)} non-true feeds')
        # OPT and TSIG truncation flags are OR-ed into the additional flag
        ors = cx.assigns(f, r'^bitor\(', place=None)
        cx.check('C03.S1', len(ors) >= 2, f.path, 'sites', 'OPT-and-TSIG-flags-merged', f'{len(ors)} |= sites')
        # ... and they are merged BEFORE the TC bit is computed from the additional flag: a flag merged later never reaches the header
        for c_ in clear[:1]:
            after = cx.reachable_from(f, [c_.bb])
            for o in ors:
                late = o.bb in after and o.bb != c_.bb
                cx.check('C03.S1', not late, f.path, o.key(), 'truncation-flag-merged-before-TC-is-computed',
                         'the OPT/TSIG record was dropped after the TC bit had been computed: the merged flag never reaches the header', o.loc)
            for em in cx.calls(f, r'BinEncoder<\'\w+>::emit_iter$|BinEncoder::emit_iter$|EmitAndCount::emit$'):
                cx.check('C03.S1', not (em.bb in after and em.bb != c_.bb), f.path, em.key(), 'nothing-emitted-after-TC-is-computed', em.term[:100], em.loc)
    c = cx.fn('C03.S1', 'hickory_proto::op::message::count_was_truncated')
    if c:
        tr = cx.returns(c, r'^Result::Ok\(\(.*,true\)\)$|^Result::Ok\(\(.*phi\(false\|true\).*\)\)$|^Result::Ok\(')
        tset = cx.assigns(c, r'^\(.*,true\)$', place=None)
        cx.guard('C03.S1', tset, {'only-for-NotAllRecordsWritten': r'^is\(arg1@Err\.0,NotAllRecordsWritten\)$'}, expect=1, fn=c)
        errs = cx.returns(c, r'^Result::Err\(arg1@Err\.0\)$')
        cx.check('C03.S1', len(errs) == 1, c.path, 'ret', 'other-errors-propagate', str(len(errs)))
    # ---------------------------------------------------------------- T1 limit selection
    e = cx.fn('C03.T1', 'hickory_server::zone_handler::message_response::MessageResponse::encode')
    if e:
        sm = cx.calls(e, r'BinEncoder::set_max_size$')
        cx.check('C03.T1', len(sm) == 2, e.path, 'calls', 'two-limits', str(len(sm)))
        if len(sm) == 2:
            first, second = sorted(sm, key=lambda s: s.fn.span(s.bb)[0])
            cx.check('C03.T1', bool(re.search(r'set_max_size\(BinEncoder::new\(.*\),phi\(((Ord::min\(Edns::max_payload\(arg1\.edns@Some\.0\),const:message_response::MAX_UDP_PAYLOAD\)|Ord::min\(Edns::max_payload\(arg1\.edns@Some\.0\),6550[0-7]\))|512|const:(u16|num)::MAX|65535)(\|((Ord::min\(Edns::max_payload\(arg1\.edns@Some\.0\),const:message_response::MAX_UDP_PAYLOAD\)|Ord::min\(Edns::max_payload\(arg1\.edns@Some\.0\),6550[0-7]\))|512|const:(u16|num)::MAX|65535)){2}\)\)$', first.term)),
                     e.path, first.key(), 'limit-is-one-of(min(edns payload, largest datagram),512,u16::MAX)', first.term, first.loc)
            cx.check('C03.T1', second.term.endswith(',512)'), e.path, second.key(), 'fallback-limit-512', second.term, second.loc)
        # the fallback response is written into an EMPTY buffer: a second encoder over the same Vec must be preceded by clear()
        # (a new BinEncoder starts at offset 0 but does not shorten the Vec: bytes of the failed attempt would trail the SERVFAIL header)
        encs = sorted(cx.calls(e, r"BinEncoder<'\w+>::new$|BinEncoder::new$"), key=lambda s_: s_.fn.span(s_.bb)[0])
        clears = {s_.bb for s_ in cx.calls(e, r'Vec<T, A>::clear$|Vec::clear$')}
        cx.check('C03.T1', len(encs) == 2, e.path, 'calls', 'two-encoders(real,fallback)', str(len(encs)))
        if len(encs) == 2 and encs[0].term == encs[1].term:
            cx.must_pass('C03.T1', e, [encs[1]], via_blocks=clears, start_blocks=[b for b in e.succs(encs[0].bb) if not e.blocks[b]['cleanup']],
                         what='buffer-cleared-before-the-fallback-encoding')
        lim = cx.assigns(e, r'^512$', place=None)
        cx.guard('C03.T1', lim[:1], {'udp': r'^is\(arg2,Udp\)$', 'no-edns': r'^!ok\(arg1\.edns\)$'}, fn=e)
        mp = cx.calls(e, r'Edns::max_payload$')
        cx.guard('C03.T1', mp, {'udp': r'^is\(arg2,Udp\)$', 'edns-present': r'^ok\(arg1\.edns\)$'}, expect=1, fn=e)
        mx = cx.assigns(e, r'^const:(u16|num)::MAX$|^65535$', place=None)
        cx.guard('C03.T1', mx[:1], {'not-udp': r'^is\(arg2,Tcp\)$|^in\(arg2,Tcp.*\)$|^!is\(arg2,Udp\)$'}, fn=e)
        cx.check('C03.T1', len(lim) >= 1 and len(mx) >= 1, e.path, 'sites', 'limit-constants-present', f'512:{len(lim)} max:{len(mx)}')
        oks = cx.returns(e, r'^Result::Ok\(')
        for s in oks:
            cx.check('C03.T1', bool(re.search(r',Vec::with_capacity\(512\)\)\)$', s.term)), e.path, s.key(), 'returns-the-encoded-buffer', s.term[:160], s.loc)
    h = cx.fn('C03.T1', '<hickory_server::zone_handler::catalog::Catalog as hickory_server::server::request_handler::RequestHandler>::handle_request::{closure@pin#0}')
    if h:
        sp = cx.calls(h, r'Edns::set_max_payload$')
        cx.check('C03.T1', len(sp) == 1 and bool(re.search(r'Ord::max\(Edns::max_payload\(\^arg2\.edns@Some\.0\),512\)\)$', sp[0].term)), h.path, 'call', 'advertise-max(request payload,512)', sp[0].term if sp else 'none')
    r = cx.fn('C03.T1', '<hickory_server::server::response_handler::ResponseHandle as hickory_server::server::response_handler::ResponseHandler>::send_response::{closure@pin#0}')
    if r:
        snd = cx.calls(r, r'DnsStreamHandle>::send$|BufDnsStreamHandle::send$')
        ok = len(snd) == 1 and bool(re.search(r'SerialMessage::new\(try\(MessageResponse::encode\(.*,\^?arg1\.protocol\)\)@Continue\.0\.1,\^?arg1\.dst\)', snd[0].term))
        cx.check('C03.T1', ok, r.path, 'call', 'sends-encode(self.protocol)-buffer-to-dst', snd[0].term[:260] if snd else 'none')

    # ---------------------------------------------------------------- H helper semantics the guards above rely on (rules/helpers.py)
    helpers.check(cx, 'C03.H', ['Edns::max_payload'])

    # ---------------------------------------------------------------- N1 argument names agree with the parameters they are bound to (engine/argnames.py)
    argnames.check(cx, 'C03.N1', r'hickory_proto::op::message|hickory_server::zone_handler::message_response|hickory_server::server::response_handler|hickory_proto::serialize::binary::encoder', floor=50)
    argnames.check_fields(cx, 'C03.N1', r'hickory_proto::op::message|hickory_server::zone_handler::message_response|hickory_server::server::response_handler|hickory_proto::serialize::binary::encoder', floor=33)


"""C19 — bailiwick and termination in the recursor: sanitiser before sink, NS-owner/glue/server-filter guards,
every recursive cycle passes a depth check."""
import re
import argnames
import helpers
from api import shorten, Site

EXPLANATION = (
    "PATH/GUARD/REC rules over hickory-resolver's recursor (feature `recursor`, never compiled by the baseline): (P1) in "
    "RecursorDnsHandle::lookup both sinks - response_cache.insert(query, Ok(..)) and the Ok(message) return - are reached only "
    "after Vec::retain with the bailiwick closure on each of additionals, answers and authorities of the same response; the "
    "closure keeps a record only under is_subzone(zone, record.name); is_subzone rejects an empty parent and fqdn mismatches "
    "before zone_of; (G1) ns_pool_for_name uses an NS record only under is_subzone(zone.base_name(), ns owner); glue addresses "
    "enter the map only under !name_server_filter.denied(ip); append_ips_from_lookup yields an address only under the same "
    "filter; (R1) every cycle of the call graph inside the recursor has a depth check on each iteration: in ns_pool_for_name "
    "every path from the start of a zone iteration to the NS lookup or to append_ips_from_lookup crosses "
    "recursion_exceeded(ns_recursion_limit, depth) == Ok after depth += 1; resolve_cnames checks recursion_exceeded(recursion_limit) "
    "and the MAX_CNAME_LOOKUPS counter before recursing into resolve; recursion_exceeded is Ok only under depth < limit; the stub "
    "resolver's alias restart is guarded by DepthTracker::is_exhausted; (R2) every retry cycle of PoolState::try_send that is not an inner "
    "finite drain or an await crosses the `now >= deadline` test and the deadline is assigned once; (R3) atomic budget counters in the "
    "recursor are only ever fetch_add-ed / loaded (the alias budget counts the whole tree, not the stack).")
NOT_DECIDED = ("Query-count bounds as numbers; cache contents over histories; owner filtering of the address answers consumed by "
               "append_ips_from_lookup (DESIGN F7: candidate, no demonstration built, not required here).")
ASSUMPTIONS = ["FULL feature configuration (recursor + dnssec-ring)", "async_recursion boxing does not change the call structure"]

R = 'hickory_resolver::recursor::handle::RecursorDnsHandle::'
RESP = r'await\(StreamExt::next\(<NameServerPool<P> as DnsHandle>::lookup\(\^arg4,\^arg2,\^arg1\.request_options\)\)\)@Ready\.0@Some\.0@Ok\.0'
ITER = r'^ok\(range::next\(RangeInclusive::new\(1,Name::num_labels\(\^arg2\)\)\)\)$'


def run(cx):
    # ---------------------------------------------------------------- P1 sanitiser before sink
    f = cx.fn('C19.P1', R + 'lookup::{closure#0}')
    if f:
        rets = cx.calls(f, r'Vec<T, A>::retain$|Vec::retain$')
        secs = {}
        for s in rets:
            m = re.search(rf'^Vec::retain\({RESP}\.(\w+),closure:RecursorDnsHandle::lookup::\{{closure#0\}}::\{{closure@retain#0\}}\)$', s.term)
            if m:
                secs[m.group(1)] = s
        cx.check('C19.P1', set(secs) == {'answers', 'authorities', 'additionals'}, f.path, 'calls', 'all-three-sections-filtered', ', '.join(sorted(secs)))
        sinks = [s for s in cx.calls(f, r'ResponseCache::insert$') if re.search(r',Result::Ok\(', s.term)] + cx.returns(f, r'^Result::Ok\(')
        cx.check('C19.P1', len(sinks) == 2, f.path, 'sinks', 'sink-count', str(len(sinks)))
        for nm, s in secs.items():
            cx.must_pass('C19.P1', f, sinks, via_blocks={s.bb}, what=f'{nm}-filtered-before-cache-or-return')
        for s in sinks:
            cx.check('C19.P1', bool(re.search(rf'DnsResponse::into_message\({RESP}\)', s.term)), f.path, s.key(), 'sink-takes-the-filtered-response', s.term[:200], s.loc)
    c = cx.fn('C19.P1', R + 'lookup::{closure#0}::{closure@retain#0}')
    if c:
        t = cx.true_returns(c)
        cx.guard('C19.P1', t, {'in-bailiwick': r'^recursor::is_subzone\(\^+arg3,arg2\.name\)$'}, fn=c)
        cx.check('C19.P1', len(t) >= 1, c.path, 'ret', 'true-return-present', str(len(t)))
        cx.bool_cnf('C19.P1', c, [[r'recursor::is_subzone\(\^+arg3,arg2\.name\)']], 'keep=in-bailiwick')
    z = cx.fn('C19.P1', 'hickory_resolver::recursor::is_subzone')
    if z:
        t = cx.true_returns(z)
        cx.guard('C19.P1', t, {'parent-not-empty': r'^!Name::is_empty\(arg1\)$',
                               'fqdn-agrees': r'^Name::is_fqdn\(arg2\)$|^!Name::is_fqdn\(arg1\)$|^eq\(Name::is_fqdn\(arg1\),Name::is_fqdn\(arg2\)\)$|^eq\(Name::is_fqdn\(arg2\),Name::is_fqdn\(arg1\)\)$',
                               'fqdn-agrees-2': r'^!Name::is_fqdn\(arg2\)$|^Name::is_fqdn\(arg1\)$|^eq\(Name::is_fqdn\(arg1\),Name::is_fqdn\(arg2\)\)$|^eq\(Name::is_fqdn\(arg2\),Name::is_fqdn\(arg1\)\)$',
                               'zone_of': r'^Name::zone_of\(arg1,arg2\)$'}, fn=z)
        cx.check('C19.P1', len(t) == 1, z.path, 'ret', 'single-true-return', str(len(t)))
    # ---------------------------------------------------------------- G1 / R1 ns_pool_for_name
    f = cx.fn('C19.G1', R + 'ns_pool_for_name::{closure@pin#0}')
    if f:
        ZONE = r'Name::trim_to\(\^arg2,cast<usize>\(range::next\(RangeInclusive::new\(1,Name::num_labels\(\^arg2\)\)\)@Some\.0\)\)'
        REC_OK = rf'^ok\(RecursorError::recursion_exceeded\(\^arg1\.ns_recursion_limit,\^arg4,{ZONE}\)\)$'
        body = [s for bb in range(len(f.blocks)) for s, ps in f.edge_props(bb).items() if any(re.search(ITER, shorten(p)) for p in ps)]
        cx.check('C19.R1', len(body) == 1, f.path, 'loop', 'zone-loop-shape', f'{len(body)} loop bodies')
        lk = cx.calls(f, r'RecursorDnsHandle<P>::lookup$|RecursorDnsHandle::lookup$')
        ap = cx.calls(f, r'RecursorDnsHandle<P>::append_ips_from_lookup$|RecursorDnsHandle::append_ips_from_lookup$')
        cx.check('C19.R1', len(lk) == 1 and len(ap) == 1, f.path, 'calls', 'upstream-work-sites', f'lookup={len(lk)} append_ips={len(ap)}')
        cx.must_pass('C19.R1', f, lk + ap, via_edge=REC_OK, start_blocks=body, what='depth-check-in-every-iteration-before-upstream-work')
        inc = cx.assigns(f, r'^addwithoverflow\(\^arg4,1\)\.0$', place=r'\.cap:\d+$')
        rx = cx.calls(f, r'RecursorError::recursion_exceeded$')
        cx.check('C19.R1', len(inc) == 1 and len(rx) == 1, f.path, 'sites', 'depth-increment-and-check', f'inc={len(inc)} check={len(rx)}')
        if inc and rx:
            cx.must_pass('C19.R1', f, rx, via_blocks={inc[0].bb}, start_blocks=body, what='depth-incremented-before-check')
            cx.check('C19.R1', bool(re.search(r'^RecursorError::recursion_exceeded\(\^arg1\.ns_recursion_limit,\^arg4,', rx[0].term)), f.path, rx[0].key(), 'checks-ns_recursion_limit-against-depth', rx[0].term[:120], rx[0].loc)
        for s in ap:
            cx.check('C19.R1', bool(re.search(rf'^RecursorDnsHandle::append_ips_from_lookup\(\^arg1,{ZONE},\^arg4,\^arg3,', s.term)), f.path, s.key(), 'depth-passed-down', s.term[:160], s.loc)
        # NS owner bailiwick: NS data is used (glue lookup, address collection, need_ips push) only under is_subzone(parent, owner)
        NSREC = r'<Chain<A;B> as Iterator>::next\(Message::all_sections\(.*?\)\)@Some\.0'
        SUB = rf'^recursor::is_subzone\(Name::base_name\({ZONE}\),{NSREC}\.name\)$'
        uses = [s for s in cx.calls(f, r'Vec<T, A>::push$|Vec::push$|Vec<T, A>::extend$|Vec::extend$|ResponseCache::get$') if '@NS.0' in s.term]
        cx.guard('C19.G1', uses, {'ns-owner-in-parent-bailiwick': SUB, 'is-NS-record': rf'^is\({NSREC}\.data,NS\)$'}, fn=f)
        cx.floor('C19.G1', len(uses), 2, 'uses of NS rdata in ns_pool_for_name')
        ext = [s for s in cx.calls(f, r'Vec<T, A>::extend$|Vec::extend$|<Vec<T, A> as .*Extend<.*>>::extend$') if 'HashMap::get(' in s.term or 'glue' in s.term]
        cx.guard('C19.G1', ext, {'ns-owner-in-parent-bailiwick': SUB}, fn=f)
    g = cx.fn('C19.G1', R + 'add_glue_to_map')
    if g:
        sinks = cx.calls(g, r'Vec<T, A>::push$|Vec::push$|HashMap<K, V, S, A>::insert$|HashMap::insert$')
        cx.guard('C19.G1', sinks, {'address-not-denied': r'^!AccessControlSet::denied\(arg1\.name_server_filter,'}, fn=g)
        cx.floor('C19.G1', len(sinks), 2, 'glue map sinks')
    a1 = cx.fn('C19.G1', R + 'append_ips_from_lookup::{closure#0}::{closure@filter_map#0}')
    if a1:
        some = cx.returns(a1, r'^Option::Some\(')
        cx.guard('C19.G1', some, {'address-not-denied': r'^!AccessControlSet::denied\(\^+arg1\.name_server_filter,try\(RData::ip_addr\(arg2\.data\)\)@Continue\.0\)$'}, expect=1, fn=a1)
    a = cx.fn('C19.R1', R + 'append_ips_from_lookup::{closure#0}')
    if a:
        rc = cx.calls(a, r'RecursorDnsHandle<P>::ns_pool_for_name$|RecursorDnsHandle::ns_pool_for_name$')
        cx.guard('C19.R1', rc, {'only-for-out-of-zone-ns-names': r'^!recursor::is_subzone\(\^arg2,'}, expect=1, fn=a)
        for s in rc:
            cx.check('C19.R1', s.term.endswith(',^arg4,^arg3)'), a.path, s.key(), 'recursion-carries-the-callers-depth', s.term[-60:], s.loc)
    # ---------------------------------------------------------------- R1 resolve / resolve_cnames
    rcn = cx.fn('C19.R1', R + 'resolve_cnames::{closure@pin#0}')
    if rcn:
        rs = cx.calls(rcn, r'RecursorDnsHandle<P>::resolve$|RecursorDnsHandle::resolve$')
        cx.guard('C19.R1', rs, {'depth-below-recursion-limit': r'^ok\(RecursorError::recursion_exceeded\(\^arg1\.recursion_limit,\^arg6,\^arg3\.name\)\)$',
                                'cname-count-below-cap': r'^le\(addwithoverflow\(Atomic::fetch_add\(\^arg7,1,Ordering::Relaxed\),1\)\.0,const:handle::MAX_CNAME_LOOKUPS\)$'}, expect=1, fn=rcn)
        inc = cx.assigns(rcn, r'^addwithoverflow\(\^arg6,1\)\.0$', place=r'\.cap:\d+$')
        cx.check('C19.R1', len(inc) == 1, rcn.path, 'store', 'depth-incremented', str(len(inc)))
        for s in rs:
            cx.check('C19.R1', s.term.endswith(',^arg6,^arg7)'), rcn.path, s.key(), 'depth-and-counter-passed-down', s.term[-60:], s.loc)
    rx = cx.fn('C19.R1', 'hickory_resolver::recursor::error::RecursorError::recursion_exceeded')
    if rx:
        oks = cx.returns(rx, r'^Result::Ok\(')
        cx.guard('C19.R1', oks, {'depth<limit': r'^lt\(arg2,arg1\)$'}, expect=1, fn=rx)
    # recursion census: every call-graph cycle inside the recursor module goes through one of the guarded edges
    cyc = call_cycles(cx.prog, r'^hickory_resolver::recursor::')
    allowed = {('resolve_cnames', 'resolve'), ('resolve', 'resolve_cnames'), ('ns_pool_for_name', 'append_ips_from_lookup'),
               ('append_ips_from_lookup', 'ns_pool_for_name')}
    bad = [e for e in cyc if (short(e[0]), short(e[1])) not in allowed]
    cx.check('C19.R1', not bad, 'hickory_resolver::recursor', 'callgraph', 'recursive-edges-are-the-reviewed-ones',
             '; '.join(f'{short(a)}->{short(b)}' for a, b in bad) or f'{len(cyc)} recursive edges, all reviewed')
    cx.floor('C19.R1', len(cyc), 4, 'recursive call edges in the recursor')
    # ---------------------------------------------------------------- stub resolver alias chase
    d = cx.fn('C19.R1', 'hickory_resolver::caching_client::DepthTracker::is_exhausted')
    if d:
        t = cx.true_returns(d)
        cx.check('C19.R1', len(t) == 1 and bool(re.search(r'^le\(const:DepthTracker::MAX_QUERY_DEPTH,addwithoverflow\(arg1\.query_depth,1\)\.0\)$', t[0].term)), d.path, 'ret', 'exhausted-at-MAX_QUERY_DEPTH', '; '.join(s.term for s in t))
    n_guarded = 0
    for g in cx.prog.find(r'^hickory_resolver::caching_client::CachingClient::'):
        for s in cx.calls(g, r'DepthTracker::nest$'):
            n_guarded += 1
            cx.guard('C19.R1', [s], {'depth-not-exhausted': r'^!DepthTracker::is_exhausted\('}, fn=g)
    cx.floor('C19.R1', n_guarded, 1, 'DepthTracker::nest call sites')

    # ---------------------------------------------------------------- R3 the alias budget only counts up
    # MAX_CNAME_LOOKUPS bounds the TOTAL number of alias lookups of one client query (the shared Arc<AtomicU8> is handed down through
    # every nested resolve): the recursion depth bounds one path, the budget bounds the tree (k unresolved CNAMEs per response over d
    # levels).  That holds only while the counter is monotone: within the recursor the only operations on an atomic counter are
    # fetch_add and load - a fetch_sub / store / swap "when a link has been followed" turns the budget into a stack-depth gauge.
    ops = {}
    for g_ in cx.prog.fns.values():
        if not re.search(r'hickory_resolver::recursor::', g_.path) or '::tests::' in g_.path:
            continue
        for s_ in cx.calls(g_, r'Atomic\w*::\w+$|atomic::Atomic\w*::\w+$'):
            ops.setdefault(s_.label.rsplit('::', 1)[-1], []).append(f'{shorten(g_.path + "(")[:-1]} @ {s_.loc}')
    bad = {k: v for k, v in ops.items() if k not in ('fetch_add', 'load', 'new', 'default', 'clone', 'fmt')}
    cx.check('C19.R3', not bad, 'hickory_resolver::recursor', 'atomics', 'budget-counters-only-count-up(fetch_add/load)', '; '.join(f'{k}: {v[0]}' for k, v in bad.items()))
    cx.floor('C19.R3', len(ops.get('fetch_add', [])), 1, 'fetch_add on a budget counter in the recursor')

    # ---------------------------------------------------------------- R2 the name-server pool's retry loop is bounded
    # every upstream exchange of the recursor and the stub resolver goes through PoolState::try_send, whose loop re-queues servers
    # (truncated -> TCP, case mismatch, busy back-off).  Its only unconditional bound is the lookup deadline: every cycle of the
    # loop that is not an inner finite drain (pop_front / FuturesUnordered::next) or an await suspension crosses the
    # `now >= deadline` test, and the deadline is computed once (a re-armed deadline lets a server that always truncates spin forever)
    import C18
    import loops
    ts = cx.fn('C19.R2', 'hickory_resolver::name_server_pool::PoolState::try_send::{closure#0}')
    if ts:
        test = set()
        for bi in range(len(ts.blocks)):
            for t_, ps in (ts.edge_props(bi) or {}).items():
                if any(re.search('^!?' + C18.PAST + '$', shorten(p_)) for p_ in ps):
                    test.add(bi)
        cx.floor('C19.R2', len(test), 1, 'deadline tests in PoolState::try_send')
        inner = {bi for bi, c_, t_ in cx.prog.calls_of(ts) if any(re.search(r'VecDeque<T, A>::pop_front$|VecDeque::pop_front$|StreamExt::next$|Iterator>::next$|Iterator::next$', x) for x in ts.callee_names(c_))}
        ys = {bi for bi, b_ in enumerate(ts.blocks) if b_['t'][0] == 'yield'}
        bad = loops.cycles_without(cx, ts, test | inner | ys)
        cx.check('C19.R2', not bad, ts.path, 'loops', 'every-retry-cycle-crosses-the-deadline-test',
                 'blocks on a cycle that avoids the deadline test at lines ' + ','.join(str(x) for x in sorted({ts.span(b)[0] for b in bad})[:8]), f'{ts.file}:{ts.line}')
        cx.single_def('C19.R2', ts, 'deadline-computed-once-per-lookup', '^' + C18.DEADLINE + '$')

    # ---------------------------------------------------------------- H helper semantics the guards above rely on (rules/helpers.py)
    helpers.check(cx, 'C19.H', ['Name::zone_of', 'Name::base_name', 'Name::trim_to'])

    # ---------------------------------------------------------------- F1 the answer filter sees the whole response
    # deny_answers / allow_answers are applied by NameServerPool::send to every response the recursor (and the stub resolver) gets:
    # a denied address must not leave in ANY section - the additional section carries the glue the recursor contacts next and the
    # addresses alias chasing moves into the answer.  Every response handed back is either under allows_all() or has passed the
    # retain of all three sections (an early return between them lets a section through unfiltered)
    pf = cx.fn('C19.F1', '<hickory_resolver::name_server_pool::NameServerPool<P> as hickory_net::xfer::dns_handle::DnsHandle>::send::{closure@once#0}')
    if pf:
        rets = cx.calls(pf, r'Vec<T, A>::retain$|Vec::retain$')
        secs = {}
        for s in rets:
            m = re.search(r'\.(answers|authorities|additionals),closure:<NameServerPool<P> as DnsHandle>::send::\{closure@once#0\}::\{closure@retain#0\}\)$', s.term)
            if m:
                secs.setdefault(m.group(1), []).append(s)
        cx.check('C19.F1', set(secs) == {'answers', 'authorities', 'additionals'}, pf.path, 'calls', 'answer-filter-applied-to-all-three-sections', ', '.join(sorted(secs)))
        handed = [s for s in cx.returns(pf, r'.') if not re.search(r'^Result::Err\(|from_residual', s.term) and not cx.has_guard(s, r'^AccessControlSet::allows_all\(')]
        cx.check('C19.F1', len(handed) >= 1, pf.path, 'ret', 'filtered-response-returns-present', str(len(handed)))
        for sec, ss in sorted(secs.items()):
            cx.must_pass('C19.F1', pf, handed, via_blocks={x.bb for x in ss}, what=f'{sec}-filtered-before-the-response-is-handed-back')
    rc_ = cx.fn('C19.F1', '<hickory_resolver::name_server_pool::NameServerPool<P> as hickory_net::xfer::dns_handle::DnsHandle>::send::{closure@once#0}::{closure@retain#0}')
    if rc_:
        # (the address is taken from the record's A / AAAA data, directly or through an Option-returning selector)
        DEN = r'AccessControlSet::denied\(\^\^arg1\.state\.cx\.answer_address_filter,phi\((?:Option::None\|)?(?:Option::Some\()?into<IpAddr>\(arg2\.data@A{1,4}\.0\.0\)\)?\|(?:Option::Some\()?into<IpAddr>\(arg2\.data@A{1,4}\.0\.0\)\)?\)(?:@Some\.0)?\)'
        tr = [s for s in cx.true_returns(rc_) if not cx.has_guard(s, r'^in\(arg2\.data,(?!.*\bA\b)(?!.*\bAAAA\b)')]
        cx.guard('C19.F1', tr, {'address-record-kept-only-if-not-denied': '^!' + DEN + '$'}, expect=1, fn=rc_)

    # ---------------------------------------------------------------- N1 argument names agree with the parameters they are bound to (engine/argnames.py)
    argnames.check(cx, 'C19.N1', r'hickory_resolver::recursor', floor=55)
    argnames.check_fields(cx, 'C19.N1', r'hickory_resolver::recursor', floor=58)



def short(p):
    p = re.sub(r'::\{closure[^}]*\}', '', p)
    return p.rsplit('::', 1)[-1]


def call_cycles(prog, scope_rx):
    """edges (caller, callee) that lie on a cycle of the call graph restricted to scope (closures folded into parents)"""
    rx = re.compile(scope_rx)

    def root(p):
        return re.sub(r'(::\{closure[^}]*\})+$', '', p)
    edges = {}
    for f in prog.fns.values():
        if not rx.search(f.path):
            continue
        a = root(f.path)
        for bi, c, t in prog.calls_of(f):
            for tg in prog.callee_targets(f, c):
                if rx.search(tg):
                    b = root(tg)
                    if '::tests::' in a or '::tests::' in b:
                        continue
                    if a == b and tg != a:
                        continue     # a function polling / calling its own closure is not recursion
                    edges.setdefault(a, set()).add(b)
    # reachability closure
    def reach(x):
        seen, st = set(), [x]
        while st:
            y = st.pop()
            for z in edges.get(y, ()):
                if z not in seen:
                    seen.add(z)
                    st.append(z)
        return seen
    out = []
    R_ = {a: reach(a) for a in edges}
    for a, bs in edges.items():
        for b in bs:
            if a in R_.get(b, set()) or a == b:
                out.append((a, b))
    return out

// mirfacts: rustc_private fact extractor for the /verif static checks.
// Runs as RUSTC_WORKSPACE_WRAPPER; for crates whose name matches VERIF_CRATE_PREFIXES
// (default "hickory_") it dumps items + pre-optimisation MIR (mir_promoted, taken in
// after_expansion so that async bodies are still pre-coroutine-transform) as one JSON
// file per crate into $VERIF_FACTS_DIR.  All other crates are compiled unchanged.
#![feature(rustc_private)]
#![allow(clippy::all)]

extern crate rustc_abi;
extern crate rustc_driver;
extern crate rustc_hir;
extern crate rustc_interface;
extern crate rustc_middle;
extern crate rustc_span;

use rustc_abi::FIRST_VARIANT;
use rustc_driver::Compilation;
use rustc_hir::def::DefKind;
use rustc_hir::def_id::{DefId, LocalDefId};
use rustc_middle::mir::{
    self, AggregateKind, BasicBlock, Body, Const, ConstValue, Operand, Place, ProjectionElem,
    Rvalue, StatementKind, TerminatorKind,
};
use rustc_middle::ty::print::{with_no_trimmed_paths, with_no_visible_paths, with_resolve_crate_name};
use rustc_middle::ty::{self, Instance, Ty, TyCtxt, TypingEnv};
use rustc_span::{ExpnKind, Span};
use std::collections::BTreeMap;
use std::fmt::Write as _;

// ---------------------------------------------------------------- tiny JSON
enum J {
    Null,
    B(bool),
    N(i128),
    S(String),
    A(Vec<J>),
    O(Vec<(&'static str, J)>),
    M(BTreeMap<String, J>),
}
fn s<T: Into<String>>(x: T) -> J {
    J::S(x.into())
}
fn esc(out: &mut String, x: &str) {
    out.push('"');
    for c in x.chars() {
        match c {
            '"' => out.push_str("\\\""),
            '\\' => out.push_str("\\\\"),
            '\n' => out.push_str("\\n"),
            '\r' => out.push_str("\\r"),
            '\t' => out.push_str("\\t"),
            c if (c as u32) < 0x20 => {
                let _ = write!(out, "\\u{:04x}", c as u32);
            }
            c => out.push(c),
        }
    }
    out.push('"');
}
impl J {
    fn write(&self, out: &mut String) {
        match self {
            J::Null => out.push_str("null"),
            J::B(b) => out.push_str(if *b { "true" } else { "false" }),
            J::N(n) => {
                // JSON numbers beyond 2^53 are kept exact by python's json; fine.
                let _ = write!(out, "{}", n);
            }
            J::S(x) => esc(out, x),
            J::A(v) => {
                out.push('[');
                for (i, x) in v.iter().enumerate() {
                    if i > 0 {
                        out.push(',');
                    }
                    x.write(out);
                }
                out.push(']');
            }
            J::O(v) => {
                out.push('{');
                for (i, (k, x)) in v.iter().enumerate() {
                    if i > 0 {
                        out.push(',');
                    }
                    esc(out, k);
                    out.push(':');
                    x.write(out);
                }
                out.push('}');
            }
            J::M(v) => {
                out.push('{');
                for (i, (k, x)) in v.iter().enumerate() {
                    if i > 0 {
                        out.push(',');
                    }
                    esc(out, k);
                    out.push(':');
                    x.write(out);
                }
                out.push('}');
            }
        }
    }
}

// ---------------------------------------------------------------- extraction
struct Cx<'tcx> {
    tcx: TyCtxt<'tcx>,
    adts: BTreeMap<String, J>,
    consts: BTreeMap<String, J>,
    n_calls: usize,
    n_resolved: usize,
    n_asserts: usize,
}

fn path<'tcx>(tcx: TyCtxt<'tcx>, d: DefId) -> String {
    with_no_visible_paths!(with_resolve_crate_name!(with_no_trimmed_paths!(tcx.def_path_str(d))))
}
fn tystr<'tcx>(t: Ty<'tcx>) -> String {
    with_no_visible_paths!(with_resolve_crate_name!(with_no_trimmed_paths!(t.to_string())))
}

fn span_json<'tcx>(tcx: TyCtxt<'tcx>, sp: Span) -> J {
    // outermost macro (closest to user code) wins; else outermost desugaring
    let mut cur = sp;
    let mut mac: Option<String> = None;
    let mut desugar: Option<String> = None;
    let mut guard = 0;
    while cur.from_expansion() && guard < 64 {
        guard += 1;
        let d = cur.ctxt().outer_expn_data();
        match d.kind {
            ExpnKind::Macro(_, n) => mac = Some(n.to_string()),
            ExpnKind::Desugaring(k) => desugar = Some(format!("desugar:{:?}", k)),
            ExpnKind::AstPass(k) => desugar = Some(format!("astpass:{:?}", k)),
            ExpnKind::Root => {}
        }
        cur = d.call_site;
    }
    let sm = tcx.sess.source_map();
    let lo = sm.lookup_char_pos(cur.lo());
    let mut v = vec![J::N(lo.line as i128), J::N(lo.col.0 as i128 + 1)];
    if let Some(m) = mac {
        v.push(s(m));
    } else if let Some(d) = desugar {
        v.push(s(d));
    }
    J::A(v)
}

fn file_line<'tcx>(tcx: TyCtxt<'tcx>, sp: Span) -> (String, usize) {
    let sm = tcx.sess.source_map();
    let mut cur = sp;
    let mut guard = 0;
    while cur.from_expansion() && guard < 64 {
        guard += 1;
        cur = cur.ctxt().outer_expn_data().call_site;
    }
    let lo = sm.lookup_char_pos(cur.lo());
    (format!("{}", lo.file.name.prefer_local_unconditionally()), lo.line)
}

impl<'tcx> Cx<'tcx> {
    fn note_adt(&mut self, adt: ty::AdtDef<'tcx>) -> String {
        let tcx = self.tcx;
        let p = path(tcx, adt.did());
        if !self.adts.contains_key(&p) {
            let mut variants = Vec::new();
            let is_enum = adt.is_enum();
            for (vi, v) in adt.variants().iter_enumerated() {
                let discr: i128 = if is_enum {
                    adt.discriminant_for_variant(tcx, vi).val as i128
                } else {
                    0
                };
                let fields: Vec<J> = v
                    .fields
                    .iter()
                    .map(|f| {
                        J::A(vec![
                            s(f.name.to_string()),
                            s(if f.vis.is_public() { "pub" } else { "restricted" }),
                            s(with_no_trimmed_paths!(tcx
                                .type_of(f.did)
                                .instantiate_identity()
                                .skip_norm_wip()
                                .to_string())),
                        ])
                    })
                    .collect();
                variants.push(J::O(vec![
                    ("name", s(v.name.to_string())),
                    ("discr", J::N(discr)),
                    ("fields", J::A(fields)),
                ]));
            }
            let kind = if adt.is_enum() {
                "enum"
            } else if adt.is_union() {
                "union"
            } else {
                "struct"
            };
            self.adts.insert(
                p.clone(),
                J::O(vec![
                    ("kind", s(kind)),
                    ("local", J::B(adt.did().is_local())),
                    ("variants", J::A(variants)),
                ]),
            );
        }
        p
    }

    fn place(&mut self, body: &Body<'tcx>, p: &Place<'tcx>) -> J {
        let tcx = self.tcx;
        let mut pty = mir::PlaceTy::from_ty(body.local_decls[p.local].ty);
        let mut projs: Vec<J> = Vec::new();
        for elem in p.projection.iter() {
            let r = match elem {
                ProjectionElem::Deref => "*".to_string(),
                ProjectionElem::Field(f, _) => match pty.ty.kind() {
                    ty::Adt(adt, _) => {
                        self.note_adt(*adt);
                        let vi = pty.variant_index.unwrap_or(FIRST_VARIANT);
                        format!(".{}", adt.variant(vi).fields[f].name)
                    }
                    ty::Closure(..) | ty::Coroutine(..) | ty::CoroutineClosure(..) => {
                        format!(".cap:{}", f.index())
                    }
                    _ => format!(".{}", f.index()),
                },
                ProjectionElem::Downcast(_, vi) => match pty.ty.kind() {
                    ty::Adt(adt, _) => format!("@{}", adt.variant(vi).name),
                    _ => format!("@{}", vi.index()),
                },
                ProjectionElem::Index(l) => format!("[_{}]", l.index()),
                ProjectionElem::ConstantIndex { offset, from_end, .. } => {
                    format!("[{}{}]", if from_end { "-" } else { "" }, offset)
                }
                ProjectionElem::Subslice { from, to, from_end } => {
                    format!("[{}..{}{}]", from, if from_end { "-" } else { "" }, to)
                }
                _ => "?".to_string(),
            };
            projs.push(s(r));
            pty = pty.projection_ty(tcx, elem);
        }
        if projs.is_empty() {
            J::N(p.local.index() as i128)
        } else {
            let mut v = vec![J::N(p.local.index() as i128)];
            v.extend(projs);
            J::A(v)
        }
    }

    /// "adt_path.field" of the last ADT field projection in the place (who-may-write rules)
    fn field_owner(&mut self, body: &Body<'tcx>, p: &Place<'tcx>) -> Option<String> {
        let tcx = self.tcx;
        let mut pty = mir::PlaceTy::from_ty(body.local_decls[p.local].ty);
        let mut last = None;
        for elem in p.projection.iter() {
            if let ProjectionElem::Field(f, _) = elem {
                if let ty::Adt(adt, _) = pty.ty.kind() {
                    let vi = pty.variant_index.unwrap_or(FIRST_VARIANT);
                    last = Some(format!("{}.{}", path(tcx, adt.did()), adt.variant(vi).fields[f].name));
                }
            }
            pty = pty.projection_ty(tcx, elem);
        }
        last
    }

    fn fn_const(&mut self, owner: LocalDefId, def: DefId, args: ty::GenericArgsRef<'tcx>) -> J {
        let tcx = self.tcx;
        let mut o: Vec<(&'static str, J)> = vec![("def", s(path(tcx, def)))];
        let gen: Vec<J> = args
            .iter()
            .filter_map(|a| a.as_type().map(|t| s(tystr(t))))
            .collect();
        o.push(("gen", J::A(gen)));
        if let Some(tr) = tcx.trait_of_assoc(def) {
            o.push(("trait", s(path(tcx, tr))));
            if args.len() > 0 {
                if let Some(t) = args[0].as_type() {
                    o.push(("self", s(tystr(t))));
                }
            }
        }
        o.push(("local", J::B(def.is_local())));
        let env = TypingEnv::post_analysis(tcx, owner);
        let args_e = tcx.erase_and_anonymize_regions(args);
        let resolved = std::panic::catch_unwind(std::panic::AssertUnwindSafe(|| {
            Instance::try_resolve(tcx, env, def, args_e)
        }));
        if let Ok(Ok(Some(inst))) = resolved {
            let rd = inst.def_id();
            let concrete = match inst.def {
                ty::InstanceKind::Item(_) => tcx.trait_of_assoc(rd).is_none() || rd != def || {
                    // default method body of the trait itself, or inherent fn
                    true
                },
                ty::InstanceKind::Virtual(..) => false,
                _ => true,
            };
            if concrete {
                // a trait method that "resolves" to the trait's own declaration without a
                // body is not a resolution
                let has_body = !matches!(inst.def, ty::InstanceKind::Item(_))
                    || tcx.trait_of_assoc(rd).is_none()
                    || tcx.defaultness(rd).has_value();
                if has_body {
                    o.push(("res", s(path(tcx, rd))));
                    o.push(("rkind", s(match inst.def {
                        ty::InstanceKind::Item(_) => "item",
                        ty::InstanceKind::ClosureOnceShim { .. } => "closure_once",
                        ty::InstanceKind::FnPtrShim(..) => "fnptr",
                        ty::InstanceKind::DropGlue(..) => "drop",
                        ty::InstanceKind::CloneShim(..) => "clone_shim",
                        ty::InstanceKind::Intrinsic(_) => "intrinsic",
                        ty::InstanceKind::ReifyShim(..) => "reify",
                        ty::InstanceKind::VTableShim(_) => "vtable",
                        _ => "shim",
                    })));
                    self.n_resolved += 1;
                }
            } else {
                o.push(("virtual", J::B(true)));
            }
        }
        J::O(o)
    }

    fn constant(&mut self, owner: LocalDefId, c: &mir::ConstOperand<'tcx>) -> J {
        let tcx = self.tcx;
        let ty = c.const_.ty();
        if let ty::FnDef(def, args) = ty.kind() {
            return J::O(vec![("fn", self.fn_const(owner, *def, args))]);
        }
        match c.const_ {
            Const::Val(ConstValue::Scalar(mir::interpret::Scalar::Int(i)), t) => {
                let bits = i.to_bits(i.size());
                let v: i128 = if t.is_signed() {
                    let sz = i.size().bits();
                    if sz == 0 {
                        0
                    } else if sz >= 128 {
                        bits as i128
                    } else {
                        // sign extend
                        let shift = 128 - sz as u32;
                        ((bits << shift) as i128) >> shift
                    }
                } else if bits > i128::MAX as u128 {
                    -1
                } else {
                    bits as i128
                };
                if let ty::Adt(adt, _) = t.kind() {
                    let p = self.note_adt(*adt);
                    return J::O(vec![("int", J::N(v)), ("ty", s(tystr(t))), ("adt", s(p))]);
                }
                J::O(vec![("int", J::N(v)), ("ty", s(tystr(t)))])
            }
            Const::Val(ConstValue::ZeroSized, t) => {
                J::O(vec![("zst", s(tystr(t)))])
            }
            Const::Unevaluated(u, t) => {
                let p = path(tcx, u.def);
                let pr = match u.promoted {
                    Some(p) => J::N(p.index() as i128),
                    None => J::Null,
                };
                if u.promoted.is_none() && !self.consts.contains_key(&p) {
                    self.consts.insert(p.clone(), J::Null);
                }
                J::O(vec![("named", s(p)), ("promoted", pr), ("ty", s(tystr(t)))])
            }
            Const::Ty(t, ct) => J::O(vec![
                ("other", s(with_no_trimmed_paths!(format!("{:?}", ct)))),
                ("ty", s(tystr(t))),
            ]),
            Const::Val(v, t) => {
                // strings and other by-ref constants: render through the pretty printer
                let txt = with_no_trimmed_paths!(format!("{}", c.const_));
                let _ = v;
                J::O(vec![("lit", s(txt)), ("ty", s(tystr(t)))])
            }
        }
    }

    fn operand(&mut self, owner: LocalDefId, body: &Body<'tcx>, o: &Operand<'tcx>) -> J {
        match o {
            Operand::Copy(p) => J::A(vec![s("c"), self.place(body, p)]),
            Operand::Move(p) => J::A(vec![s("m"), self.place(body, p)]),
            Operand::Constant(c) => J::A(vec![s("k"), self.constant(owner, c)]),
            #[allow(unreachable_patterns)]
            _ => J::A(vec![s("?")]),
        }
    }

    fn rvalue(&mut self, owner: LocalDefId, body: &Body<'tcx>, rv: &Rvalue<'tcx>) -> J {
        let tcx = self.tcx;
        match rv {
            Rvalue::Use(o, ..) => J::A(vec![s("use"), self.operand(owner, body, o)]),
            Rvalue::Ref(_, bk, p) => J::A(vec![
                s("ref"),
                self.place(body, p),
                J::B(matches!(bk, mir::BorrowKind::Mut { .. })),
            ]),
            Rvalue::RawPtr(_, p) => J::A(vec![s("raw"), self.place(body, p)]),
            Rvalue::BinaryOp(op, ab) => J::A(vec![
                s("bin"),
                s(format!("{:?}", op)),
                self.operand(owner, body, &ab.0),
                self.operand(owner, body, &ab.1),
            ]),
            Rvalue::UnaryOp(op, a) => J::A(vec![
                s("un"),
                s(format!("{:?}", op)),
                self.operand(owner, body, a),
            ]),
            Rvalue::Cast(kind, o, t) => J::A(vec![
                s("cast"),
                s(format!("{:?}", kind)),
                self.operand(owner, body, o),
                s(tystr(*t)),
            ]),
            Rvalue::Discriminant(p) => {
                let pty = p.ty(&body.local_decls, tcx).ty;
                let adt = match pty.kind() {
                    ty::Adt(a, _) => s(self.note_adt(*a)),
                    _ => J::Null,
                };
                J::A(vec![s("discr"), self.place(body, p), adt])
            }
            Rvalue::Aggregate(kind, ops) => {
                let opsj: Vec<J> = ops.iter().map(|o| self.operand(owner, body, o)).collect();
                match &**kind {
                    AggregateKind::Adt(def, vi, _, _, active) => {
                        let adt = tcx.adt_def(*def);
                        let p = self.note_adt(adt);
                        let vname = adt.variant(*vi).name.to_string();
                        let act = match active {
                            Some(f) => J::N(f.index() as i128),
                            None => J::Null,
                        };
                        J::A(vec![s("adt"), s(p), s(vname), J::A(opsj), act])
                    }
                    AggregateKind::Tuple => J::A(vec![s("tuple"), J::A(opsj)]),
                    AggregateKind::Array(_) => J::A(vec![s("array"), J::A(opsj)]),
                    AggregateKind::Closure(def, _) => {
                        J::A(vec![s("closure"), s(path(tcx, *def)), J::A(opsj)])
                    }
                    AggregateKind::Coroutine(def, _) => {
                        J::A(vec![s("coroutine"), s(path(tcx, *def)), J::A(opsj)])
                    }
                    AggregateKind::CoroutineClosure(def, _) => {
                        J::A(vec![s("closure"), s(path(tcx, *def)), J::A(opsj)])
                    }
                    AggregateKind::RawPtr(..) => J::A(vec![s("rawptr"), J::A(opsj)]),
                }
            }
            Rvalue::CopyForDeref(p) => {
                J::A(vec![s("use"), J::A(vec![s("c"), self.place(body, p)])])
            }
            Rvalue::Repeat(o, n) => J::A(vec![
                s("repeat"),
                self.operand(owner, body, o),
                s(with_no_trimmed_paths!(format!("{:?}", n))),
            ]),
            other => J::A(vec![s("other"), s(with_no_trimmed_paths!(format!("{:?}", other)))]),
        }
    }

    fn body(&mut self, owner: LocalDefId, body: &Body<'tcx>) -> J {
        let tcx = self.tcx;
        let mut locals = Vec::new();
        for (_l, d) in body.local_decls.iter_enumerated() {
            locals.push(s(tystr(d.ty)));
        }
        let mut vars = Vec::new();
        for v in body.var_debug_info.iter() {
            if let mir::VarDebugInfoContents::Place(p) = &v.value {
                vars.push(J::A(vec![s(v.name.to_string()), self.place(body, p)]));
            }
        }
        let mut blocks = Vec::new();
        for (_bb, data) in body.basic_blocks.iter_enumerated() {
            let mut stmts = Vec::new();
            for st in data.statements.iter() {
                match &st.kind {
                    StatementKind::Assign(b) => {
                        let (pl, rv) = &**b;
                        let mut w: Vec<(&'static str, J)> = Vec::new();
                        if let Some(o) = self.field_owner(body, pl) {
                            w.push(("store", s(o)));
                        }
                        match rv {
                            Rvalue::Ref(_, mir::BorrowKind::Mut { .. }, bp) | Rvalue::RawPtr(_, bp) => {
                                if let Some(o) = self.field_owner(body, bp) {
                                    w.push(("mutref", s(o)));
                                }
                            }
                            _ => {}
                        }
                        let mut v = vec![s("="), self.place(body, pl), self.rvalue(owner, body, rv)];
                        if !w.is_empty() {
                            v.push(J::O(w));
                        }
                        v.push(span_json(tcx, st.source_info.span));
                        stmts.push(J::A(v));
                    }
                    StatementKind::SetDiscriminant { place, variant_index } => {
                        let pty = place.ty(&body.local_decls, tcx).ty;
                        let vname = match pty.kind() {
                            ty::Adt(a, _) => a.variant(*variant_index).name.to_string(),
                            _ => format!("{}", variant_index.index()),
                        };
                        stmts.push(J::A(vec![
                            s("setdiscr"),
                            self.place(body, place),
                            s(vname),
                            span_json(tcx, st.source_info.span),
                        ]));
                    }
                    StatementKind::Intrinsic(i) => {
                        stmts.push(J::A(vec![
                            s("intrinsic"),
                            s(with_no_trimmed_paths!(format!("{:?}", i))),
                            span_json(tcx, st.source_info.span),
                        ]));
                    }
                    _ => {}
                }
            }
            let term = data.terminator();
            let sp = span_json(tcx, term.source_info.span);
            let bbn = |b: BasicBlock| J::N(b.index() as i128);
            let optbb = |b: Option<BasicBlock>| match b {
                Some(b) => J::N(b.index() as i128),
                None => J::Null,
            };
            let unw = |u: &mir::UnwindAction| match u {
                mir::UnwindAction::Cleanup(b) => J::N(b.index() as i128),
                _ => J::Null,
            };
            let t = match &term.kind {
                TerminatorKind::Goto { target } => J::A(vec![s("goto"), bbn(*target)]),
                TerminatorKind::FalseEdge { real_target, .. } => {
                    J::A(vec![s("goto"), bbn(*real_target)])
                }
                TerminatorKind::FalseUnwind { real_target, .. } => {
                    J::A(vec![s("goto"), bbn(*real_target)])
                }
                TerminatorKind::SwitchInt { discr, targets } => {
                    let mut arms = Vec::new();
                    for (v, b) in targets.iter() {
                        arms.push(J::A(vec![J::N(v as i128), bbn(b)]));
                    }
                    let dty = discr.ty(&body.local_decls, tcx);
                    J::A(vec![
                        s("switch"),
                        self.operand(owner, body, discr),
                        J::A(arms),
                        bbn(targets.otherwise()),
                        s(tystr(dty)),
                    ])
                }
                TerminatorKind::Call { func, args, destination, target, unwind, .. } => {
                    self.n_calls += 1;
                    let callee = match func {
                        Operand::Constant(c) => match c.const_.ty().kind() {
                            ty::FnDef(def, ga) => self.fn_const(owner, *def, ga),
                            _ => J::O(vec![("op", self.operand(owner, body, func))]),
                        },
                        _ => J::O(vec![("op", self.operand(owner, body, func))]),
                    };
                    let a: Vec<J> =
                        args.iter().map(|x| self.operand(owner, body, &x.node)).collect();
                    let mut v = vec![
                        s("call"),
                        callee,
                        J::A(a),
                        self.place(body, destination),
                        optbb(*target),
                        unw(unwind),
                    ];
                    if let Some(o) = self.field_owner(body, destination) {
                        v.push(J::O(vec![("store", s(o))]));
                    }
                    J::A(v)
                }
                TerminatorKind::TailCall { func, args, .. } => {
                    let a: Vec<J> =
                        args.iter().map(|x| self.operand(owner, body, &x.node)).collect();
                    J::A(vec![s("tailcall"), self.operand(owner, body, func), J::A(a)])
                }
                TerminatorKind::Assert { cond, expected, msg, target, unwind } => {
                    self.n_asserts += 1;
                    let (kind, extra): (String, Vec<J>) = match &**msg {
                        mir::AssertKind::BoundsCheck { len, index } => (
                            "BoundsCheck".into(),
                            vec![self.operand(owner, body, len), self.operand(owner, body, index)],
                        ),
                        mir::AssertKind::Overflow(op, a, b) => (
                            format!("Overflow({:?})", op),
                            vec![self.operand(owner, body, a), self.operand(owner, body, b)],
                        ),
                        mir::AssertKind::OverflowNeg(a) => {
                            ("OverflowNeg".into(), vec![self.operand(owner, body, a)])
                        }
                        mir::AssertKind::DivisionByZero(a) => {
                            ("DivisionByZero".into(), vec![self.operand(owner, body, a)])
                        }
                        mir::AssertKind::RemainderByZero(a) => {
                            ("RemainderByZero".into(), vec![self.operand(owner, body, a)])
                        }
                        other => (format!("{:?}", std::mem::discriminant(other)), vec![]),
                    };
                    let kind = if kind.starts_with("Discriminant") {
                        // resume-after-return etc.
                        "Other".to_string()
                    } else {
                        kind
                    };
                    J::A(vec![
                        s("assert"),
                        self.operand(owner, body, cond),
                        J::B(*expected),
                        s(kind),
                        J::A(extra),
                        bbn(*target),
                        unw(unwind),
                    ])
                }
                TerminatorKind::Drop { place, target, unwind, .. } => {
                    J::A(vec![s("drop"), self.place(body, place), bbn(*target), unw(unwind)])
                }
                TerminatorKind::Yield { value, resume, drop, .. } => J::A(vec![
                    s("yield"),
                    self.operand(owner, body, value),
                    bbn(*resume),
                    optbb(*drop),
                ]),
                TerminatorKind::Return => J::A(vec![s("return")]),
                TerminatorKind::Unreachable => J::A(vec![s("unreachable")]),
                TerminatorKind::UnwindResume => J::A(vec![s("resume")]),
                TerminatorKind::UnwindTerminate(_) => J::A(vec![s("abort")]),
                TerminatorKind::CoroutineDrop => J::A(vec![s("coroutine_drop")]),
                TerminatorKind::InlineAsm { .. } => J::A(vec![s("asm")]),
            };
            blocks.push(J::O(vec![
                ("s", J::A(stmts)),
                ("t", t),
                ("sp", sp),
                ("cleanup", J::B(data.is_cleanup)),
            ]));
        }
        J::O(vec![
            ("argc", J::N(body.arg_count as i128)),
            ("locals", J::A(locals)),
            ("vars", J::A(vars)),
            ("blocks", J::A(blocks)),
        ])
    }
}

fn extract<'tcx>(tcx: TyCtxt<'tcx>, crate_name: &str, dir: &str) {
    let mut cx = Cx { tcx, adts: BTreeMap::new(), consts: BTreeMap::new(), n_calls: 0, n_resolved: 0, n_asserts: 0 };
    let mut fns: BTreeMap<String, J> = BTreeMap::new();
    let mut stolen = 0usize;
    let mut n_bodies = 0usize;
    let owners: Vec<LocalDefId> = tcx.hir_body_owners().collect();
    for def in owners {
        let kind = tcx.def_kind(def);
        match kind {
            DefKind::Fn | DefKind::AssocFn | DefKind::Closure => {}
            _ => continue,
        }
        // const items are skipped above; const fns are fine
        let (b, promoted) = tcx.mir_promoted(def);
        if b.is_stolen() || promoted.is_stolen() {
            stolen += 1;
            continue;
        }
        let body = b.borrow();
        let proms = promoted.borrow();
        n_bodies += 1;
        let p = path(tcx, def.to_def_id());
        let (file, line) = file_line(tcx, tcx.def_span(def));
        let mut o: Vec<(&'static str, J)> = Vec::new();
        o.push(("kind", s(format!("{:?}", kind))));
        o.push(("file", s(file)));
        o.push(("line", J::N(line as i128)));
        let vis = match kind {
            DefKind::Fn | DefKind::AssocFn => {
                let v = tcx.visibility(def);
                if v.is_public() { "pub" } else { "restricted" }
            }
            _ => "closure",
        };
        o.push(("vis", s(vis)));
        if matches!(kind, DefKind::Fn | DefKind::AssocFn) {
            o.push(("async", J::B(tcx.asyncness(def).is_async())));
            o.push(("const", J::B(tcx.is_const_fn(def.to_def_id()))));
        }
        if kind == DefKind::Closure {
            // is this a coroutine (async block / async fn body)?
            o.push(("coroutine", J::B(tcx.is_coroutine(def.to_def_id()))));
            o.push(("parent", s(path(tcx, tcx.typeck_root_def_id(def.to_def_id())))));
        }
        if let Some(imp) = tcx.impl_of_assoc(def.to_def_id()) {
            o.push(("impl_self", s(tystr(tcx.type_of(imp).instantiate_identity().skip_norm_wip()))));
            if let Some(tr) = tcx.impl_opt_trait_ref(imp) {
                o.push(("impl_trait", s(path(tcx, tr.instantiate_identity().skip_norm_wip().def_id))));
            }
        }
        o.push(("body", cx.body(def, &body)));
        let mut pv = Vec::new();
        for pb in proms.iter() {
            pv.push(cx.body(def, pb));
        }
        o.push(("promoted", J::A(pv)));
        let mut key = p.clone();
        let mut n = 1;
        while fns.contains_key(&key) {
            n += 1;
            key = format!("{}#{}", p, n);
        }
        fns.insert(key, J::O(o));
    }
    // impl table
    let mut impls = Vec::new();
    for id in tcx.hir_crate_items(()).definitions() {
        if let DefKind::Impl { .. } = tcx.def_kind(id) {
            let self_ty = tystr(tcx.type_of(id).instantiate_identity().skip_norm_wip());
            let tr = tcx
                .impl_opt_trait_ref(id)
                .map(|t| path(tcx, t.instantiate_identity().skip_norm_wip().def_id));
            let mut methods = BTreeMap::new();
            for &m in tcx.associated_item_def_ids(id) {
                if matches!(tcx.def_kind(m), DefKind::AssocFn) {
                    methods.insert(tcx.item_name(m).to_string(), s(path(tcx, m)));
                }
            }
            impls.push(J::O(vec![
                ("self", s(self_ty)),
                ("trait", match tr { Some(t) => s(t), None => J::Null }),
                ("methods", J::M(methods)),
            ]));
        }
    }
    // adt table for every local ADT (also those never touched by MIR)
    for id in tcx.hir_crate_items(()).definitions() {
        if matches!(tcx.def_kind(id), DefKind::Struct | DefKind::Enum | DefKind::Union) {
            let adt = tcx.adt_def(id.to_def_id());
            cx.note_adt(adt);
        }
    }
    let nonce = std::env::var("VERIF_NONCE").unwrap_or_default();
    let config = std::env::var("VERIF_CONFIG").unwrap_or_default();
    let feats: Vec<J> = std::env::vars()
        .filter(|(k, _)| k.starts_with("CARGO_FEATURE_"))
        .map(|(k, _)| s(k["CARGO_FEATURE_".len()..].to_lowercase()))
        .collect();
    let consts = std::mem::take(&mut cx.consts);
    let adts = std::mem::take(&mut cx.adts);
    let doc = J::O(vec![
        ("crate", s(crate_name)),
        ("config", s(config)),
        ("nonce", s(nonce)),
        ("features", J::A(feats)),
        ("n_bodies", J::N(n_bodies as i128)),
        ("n_stolen", J::N(stolen as i128)),
        ("n_calls", J::N(cx.n_calls as i128)),
        ("n_resolved", J::N(cx.n_resolved as i128)),
        ("n_asserts", J::N(cx.n_asserts as i128)),
        ("consts", J::M(consts)),
        ("adts", J::M(adts)),
        ("impls", J::A(impls)),
        ("fns", J::M(fns)),
    ]);
    let mut out = String::with_capacity(1 << 24);
    doc.write(&mut out);
    let is_bin = tcx.crate_types().iter().any(|t| matches!(t, rustc_session_crate_type::Executable));
    let fname = format!("{}/{}{}.json", dir, crate_name, if is_bin { ".bin" } else { "" });
    let tmp = format!("{}.tmp{}", fname, std::process::id());
    std::fs::write(&tmp, out).expect("write facts");
    std::fs::rename(&tmp, &fname).expect("rename facts");
}

use rustc_session::config::CrateType as rustc_session_crate_type;
extern crate rustc_session;

struct Cb;
impl rustc_driver::Callbacks for Cb {
    fn after_expansion<'tcx>(
        &mut self,
        _c: &rustc_interface::interface::Compiler,
        tcx: TyCtxt<'tcx>,
    ) -> Compilation {
        let name = tcx.crate_name(rustc_hir::def_id::LOCAL_CRATE).to_string();
        let prefixes = std::env::var("VERIF_CRATE_PREFIXES").unwrap_or_else(|_| "hickory_".into());
        if let Ok(dir) = std::env::var("VERIF_FACTS_DIR") {
            if prefixes.split(',').any(|p| !p.is_empty() && name.starts_with(p)) {
                extract(tcx, &name, &dir);
            }
        }
        Compilation::Continue
    }
}

fn main() {
    let mut args: Vec<String> = std::env::args().collect();
    // RUSTC_WORKSPACE_WRAPPER: argv[1] is the real rustc path
    if args.len() > 1 && (args[1].ends_with("rustc") || args[1].contains("/rustc")) {
        args.remove(1);
    }
    rustc_driver::run_compiler(&args, &mut Cb);
}

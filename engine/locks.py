"""LOCK rule: no guard of an async mutex is held across an await.

In the MIR of an async body (before the coroutine transform) every `.await` is a `yield` terminator.  A local of a MutexGuard type is
HELD from the statement (or call) that initialises it until it is dropped (`drop(g)` terminator) or moved out (`move g` operand).  A
path from an initialisation to a `yield` that passes no release is an await under the lock: every other task that needs the mutex
queues behind whatever is awaited there (a connect that runs into its timeout, a slow upstream).  Block-granular, normal paths only."""
import re

GUARD_TY = re.compile(r'^(futures_util::lock::mutex::MutexGuard|tokio::sync::(mutex::)?MutexGuard|async_lock::\w+::MutexGuard|std::sync::(poison::)?(mutex::)?MutexGuard|parking_lot::\w*::?MutexGuard|lock_api::mutex::MutexGuard)<')


def _uses_move(x, l):
    if isinstance(x, list):
        if len(x) == 2 and x[0] == 'm' and x[1] == l:
            return True
        return any(_uses_move(y, l) for y in x)
    if isinstance(x, dict):
        return any(_uses_move(y, l) for y in x.values())
    return False


def guards(fn, ty_rx=GUARD_TY):
    return [l for l, ty in enumerate(fn.locals) if isinstance(ty, str) and ty_rx.search(ty.replace('&mut ', '').replace('&', '').strip()) and not ty.lstrip().startswith('&')]


def held_across_yield(fn, ty_rx=GUARD_TY):
    """[(guard local, type, init block, yield block)] for every guard that can be live at an await"""
    out = []
    blocks = fn.blocks
    for g in guards(fn, ty_rx):
        inits, kills = [], set()
        for bi, b in enumerate(blocks):
            if b['cleanup']:
                continue
            for si, st in enumerate(b['s']):
                if st[0] == '=' and st[1] == g:
                    inits.append((bi, si))
                elif st[0] == '=' and _uses_move(st[2], g):
                    kills.add((bi, si))
            t = b['t']
            if t[0] == 'drop' and (t[1] == g or (isinstance(t[1], list) and t[1] == [g])):
                kills.add((bi, None))
            elif t[0] == 'call':
                if _uses_move(t[2], g):
                    kills.add((bi, None))
                if t[3] == g:
                    inits.append((bi, None))
        for ib, isi in inits:
            # forward from the initialisation
            start = []
            b = blocks[ib]
            released = False
            if isi is not None:
                for si in range(isi + 1, len(b['s'])):
                    if (ib, si) in kills:
                        released = True
                        break
                if not released and (ib, None) in kills:
                    released = True
                if not released:
                    if b['t'][0] == 'yield':
                        out.append((g, fn.locals[g], ib, ib))
                    start = [s for s in fn.succs(ib) if not blocks[s]['cleanup']]
            else:
                start = [s for s in fn.succs(ib) if not blocks[s]['cleanup']][:1]   # the call's return edge
            seen, st = set(), list(start)
            while st:
                x = st.pop()
                if x in seen:
                    continue
                seen.add(x)
                bx = blocks[x]
                if any(k[0] == x for k in kills):
                    continue
                if bx['t'][0] == 'yield':
                    out.append((g, fn.locals[g], ib, x))
                    continue
                for s in fn.succs(x):
                    if not blocks[s]['cleanup']:
                        st.append(s)
    return out


def awaits_under(fn, ty_rx=GUARD_TY):
    """[(guard local, guard type, block, term of the awaited expression)]: every `.await` (its IntoFuture::into_future call) that is
    evaluated while a guard is held"""
    out = []
    blocks = fn.blocks
    for g in guards(fn, ty_rx):
        inits, kills = [], set()
        for bi, b in enumerate(blocks):
            if b['cleanup']:
                continue
            for si, st in enumerate(b['s']):
                if st[0] == '=' and st[1] == g:
                    inits.append((bi, si))
                elif st[0] == '=' and _uses_move(st[2], g):
                    kills.add(bi)
            t = b['t']
            if t[0] == 'drop' and t[1] == g:
                kills.add(bi)
            elif t[0] == 'call':
                if _uses_move(t[2], g):
                    kills.add(bi)
                if t[3] == g:
                    inits.append((bi, None))
        seen, st = set(), []
        for ib, isi in inits:
            if isi is None:
                st += [s for s in fn.succs(ib) if not blocks[s]['cleanup']][:1]
            else:
                st.append(ib)
        while st:
            x = st.pop()
            if x in seen:
                continue
            seen.add(x)
            t = blocks[x]['t']
            if t[0] == 'call' and any(n.endswith('IntoFuture::into_future') or n.endswith('::into_future') for n in fn.callee_names(t[1])):
                out.append((g, fn.locals[g], x, fn.term_operand(t[2][0], 0) if t[2] else ''))
            if x in kills and not any(ib == x for ib, _ in inits):
                continue
            if t[0] == 'drop' and t[1] == g:
                continue
            for s in fn.succs(x):
                if not blocks[s]['cleanup']:
                    st.append(s)
    return out

"""Rule-writing API: site selectors, rule families (GUARD, PATH, WRITE, SLICE, TABLE helpers),
violation bookkeeping with position-free keys, evidence."""
import hashlib, json, os, re, time
from collections import defaultdict, deque
import core

VERIF = os.path.dirname(os.path.dirname(os.path.abspath(__file__)))

_PATHSEG = re.compile(r'(?P<pre>fn:|const:|closure:|coroutine:)?\b(?:[A-Za-z_][A-Za-z0-9_]*::)+[A-Za-z_][A-Za-z0-9_]*(?P<post>\(|::\{)?')


def _short(m):
    segs = m.group(0)
    pre = m.group('pre') or ''
    post = m.group('post') or ''
    core_ = segs[len(pre):len(segs) - len(post)]
    parts = core_.split('::')
    if pre or post or len(parts) == 2:
        keep = parts[-2:]
    else:
        keep = parts[-1:]
    return pre + '::'.join(keep) + post


def shorten(t):
    """function paths keep their last two segments (SerialNumber::new), type paths inside
    `<X as Trait>` qualifiers and generic positions keep one (Iter, Iterator)"""
    r = _PATHSEG.sub(_short, t)
    if 'try(phi(' in r:
        r = _unwrap_try(r)
    return r


def _match_paren(s, i):
    """index of the parenthesis closing the one opened at s[i]"""
    d = 0
    for j in range(i, len(s)):
        if s[j] == '(':
            d += 1
        elif s[j] == ')':
            d -= 1
            if d == 0:
                return j
    return -1


def _unwrap_try(r):
    """`try(phi(from_residual(..)|Result::Ok(v)))@Continue.0` is v: the value a Result-returning helper (expanded into its caller)
    hands to the caller's `?` on the only path on which that `?` continues"""
    for _ in range(6):
        i = r.find('try(phi(')
        while i != -1:
            e = _match_paren(r, i + 3)
            if e != -1 and r.startswith('@Continue', e + 1):
                inner = r[i + 8:e - 1]
                alts, d, cur = [], 0, ''
                for ch in inner:
                    if ch == '(':
                        d += 1
                    elif ch == ')':
                        d -= 1
                    if ch == '|' and d == 0:
                        alts.append(cur)
                        cur = ''
                    else:
                        cur += ch
                alts.append(cur)
                oks = [a for a in alts if re.match(r'^(Result::Ok|Option::Some)\(', a) and _match_paren(a, a.index('(')) == len(a) - 1]
                rest = [a for a in alts if a not in oks]
                resid = lambda a: bool(re.match(r'^<[^()]*FromResidual<[^()]*>::from_residual\(', a)) or a == 'Option::None' or a.startswith('Result::Err(')
                if len(oks) == 1 and rest and all(resid(a) for a in rest) and r.startswith('@Continue.0', e + 1):
                    v = oks[0][oks[0].index('(') + 1:-1]
                    head = r[:i]
                    while v.startswith('!') and head.endswith('!'):
                        # a negated value substituted under a negation (`!helper()?` with the helper returning `Ok(!p)`): `!!p` is p
                        v, head = v[1:], head[:-1]
                    r = head + v + r[e + 1 + len('@Continue.0'):]
                    break
                live = [a for a in alts if not resid(a)]
                if len(live) == 1 and len(live) < len(alts):
                    # the helper's own early error returns cannot be the value that continues
                    r = r[:i] + 'try(' + live[0] + ')' + r[e + 1:]
                    break
            i = r.find('try(phi(', i + 1)
        else:
            return r
    return r


class Site:
    def __init__(self, fn, bb, si, kind, term, extra=None, label=None):
        self.fn, self.bb, self.si, self.kind, self.term = fn, bb, si, kind, term
        self.extra = extra or []   # propositions that hold at the site besides path guards
        self.label = label or shorten(term)[:80]
        self.ordinal = 0

    @property
    def loc(self):
        return self.fn.loc(self.bb, self.si)

    def key(self):
        return f'{self.kind}:{self.label}#{self.ordinal}'

    def __repr__(self):
        return f'<{self.key()} @ {self.loc}>'


class Ctx:
    def __init__(self, prop, prog, info, tier='quick'):
        self.prop = prop
        self.prog = prog
        self.info = info
        self.tier = tier
        self.violations = []     # dicts
        self.obligations = 0
        self.discharged = 0
        self.evaluations = 0
        self.nontrivial = set()
        self.samples = []
        self.rules = defaultdict(lambda: {'obligations': 0, 'discharged': 0, 'sites': 0})
        self.anchors = set()
        self.notes = []
        self._reach = {}
        self.t0 = time.time()

    # ------------------------------------------------------------ bookkeeping
    def reach(self, fn):
        r = self._reach.get(fn.path)
        if r is None:
            r = self._reach[fn.path] = core.Reach(fn)
        return r

    def violation(self, rule, fn_path, site_key, what, detail='', loc=''):
        key = f'{rule}|{fn_path}|{site_key}|{what}'
        self.violations.append({'property': self.prop, 'rule': rule, 'fn': fn_path, 'site': site_key,
                                'what': what, 'detail': detail, 'loc': loc, 'key': key})

    def oblige(self, rule, ok, sample=None, nontrivial_key=None):
        self.obligations += 1
        self.evaluations += 1
        self.rules[rule]['obligations'] += 1
        if ok:
            self.discharged += 1
            self.rules[rule]['discharged'] += 1
        if nontrivial_key:
            self.nontrivial.add(nontrivial_key)
        if sample is not None and len([s for s in self.samples if s.get('rule') == rule]) < 2:
            self.samples.append(dict(sample, rule=rule))

    def fn(self, rule, path):
        """anchor lookup; a missing anchor is a violation (fail closed)"""
        f = self.prog.fn(path)
        if f is None and '::{closure@' in path:
            # the closure may have moved, with the code around it, into a transparent helper that was expanded into its former
            # parent (engine/inline.py): the unique closure of the same role in those helpers takes its place
            parent, rest = path.rsplit('::{closure@', 1)
            role = rest.split('#', 1)[0]
            tail = rest.split('}', 1)[1]
            pf = self.prog.fn(parent)
            if pf is not None:
                cands = [g for h in self.helpers_in(pf) for g in self.prog.find('^' + re.escape(h) + r'::\{closure@' + re.escape(role) + r'#\d+\}' + re.escape(tail) + '$')]
                if len(cands) == 1:
                    f = cands[0]
        if f is None:
            self.oblige(rule, False)
            self.violation(rule, path, 'anchor', 'anchor-missing',
                           'the anchored function does not exist in the analysed build (renamed/removed?)')
            return None
        self.anchors.add(path)
        return f

    @staticmethod
    def helpers_in(f):
        """paths of the transparent helpers that were expanded into f"""
        return sorted({b['inl'] for b in f.blocks if b.get('inl')})

    def closures_of(self, f):
        """closures defined in f or in a transparent helper expanded into f (nested ones included)"""
        out = []
        for par in [f.path] + self.helpers_in(f):
            out += self.prog.find('^' + re.escape(par) + r'::\{closure[^}]*\}')
        return out

    def fns(self, rule, regex, floor=1):
        fs = self.prog.find(regex)
        if len(fs) < floor:
            self.oblige(rule, False)
            self.violation(rule, regex, 'anchor', 'floor', f'{len(fs)} functions match, floor {floor}')
        for f in fs:
            self.anchors.add(f.path)
        return fs

    # ------------------------------------------------------------ site selectors
    def _number(self, sites):
        cnt = defaultdict(int)
        for s in sites:
            s.ordinal = cnt[(s.kind, s.label)]
            cnt[(s.kind, s.label)] += 1
        return sites

    def assigns(self, fn, term_rx, place=0, label=None):
        """statements `place = <rvalue>` whose traced (shortened) term matches term_rx.
        place: local index, or a regex on the rendered place for projected stores"""
        rx = re.compile(term_rx)
        out = []
        for bi, b in enumerate(fn.blocks):
            if b['cleanup']:
                continue
            for si, st in enumerate(b['s']):
                if st[0] != '=':
                    continue
                pl = st[1]
                if place is None:
                    pass
                elif isinstance(place, int):
                    if pl != place:
                        continue
                else:
                    if not re.search(place, render_place(fn, pl)):
                        continue
                t = shorten(fn.term_rvalue(st[2], 0))
                if rx.search(t):
                    out.append(Site(fn, bi, si, 'assign', t, label=label))
            t = b['t']
            if t[0] == 'call':
                pl = t[3]
                ok = True if place is None else (pl == place) if isinstance(place, int) else bool(re.search(place, render_place(fn, pl)))
                if ok:
                    tt = shorten(fn.term_call(t, 0))
                    if rx.search(tt):
                        out.append(Site(fn, bi, None, 'assign', tt, label=label))
        return self._number(out)

    def returns(self, fn, term_rx, label=None):
        """return-value definitions (assignments to _0, incl. call destinations) matching term_rx"""
        return self.assigns(fn, term_rx, place=0, label=label)

    def calls(self, fn, callee_rx, args_rx=None, label=None):
        rx = re.compile(callee_rx)
        arx = re.compile(args_rx) if args_rx else None
        out = []
        for bi, c, t in self.prog.calls_of(fn):
            names = fn.callee_names(c)
            if not any(rx.search(n) for n in names):
                continue
            term = shorten(fn.term_call(t, 0))
            if arx and not arx.search(term):
                continue
            out.append(Site(fn, bi, None, 'call', term, label=label or shorten(names[-1] + '(')[:-1]))
        return self._number(out)

    def _split_bool(self, fn, rv, want, label, depth=0):
        """`_0 = tmp` / `_0 = !tmp` where the compiler temporary `tmp` is a merge of several assignments (`!(a || b)`, `x && !(..)`):
        the return is split into one site per assignment of `tmp`, placed at that assignment, with the polarity each one needs for the
        function to return `want`; constant assignments of the wrong polarity drop out.  None when rv is not of that shape."""
        neg = False
        while rv[0] == 'un' and rv[1] == 'Not':
            neg = not neg
            rv = ['use', rv[2]]
        if rv[0] != 'use' or rv[1][0] not in ('m', 'c') or not isinstance(rv[1][1], int) or depth > 3:
            return None
        l = rv[1][1]
        if l <= fn.argc or any(isinstance(pl, int) and pl == l for _, pl in fn.meta['body']['vars']):
            return None
        defs = []
        for bi, b in enumerate(fn.blocks):
            if b['cleanup']:
                continue
            for si, st in enumerate(b['s']):
                if st[0] == '=' and st[1] == l:
                    defs.append((bi, si, st[2]))
            t = b['t']
            if t[0] == 'call' and t[3] == l:
                defs.append((bi, None, t))
        if len(defs) < 2:
            return None
        w = want != neg
        out = []
        for bi, si, d in defs:
            if si is None:
                tt = shorten(fn.term_call(d, 0))
                out.append(Site(fn, bi, None, 'ret', tt, extra=[tt if w else core.negate(tt)], label=label))
                continue
            sub = self._split_bool(fn, d, w, label, depth + 1)
            if sub is not None:
                out.extend(sub)
                continue
            t = shorten(fn.term_rvalue(d, 0))
            if t == ('false' if w else 'true'):
                continue
            out.append(Site(fn, bi, si, 'ret', t, extra=[] if t in ('true', 'false') else [t if w else core.negate(t)], label=label))
        return out

    def false_returns(self, fn, label='false'):
        """sites where a bool function returns false (mirror of true_returns)"""
        out = []
        for bi, b in enumerate(fn.blocks):
            if b['cleanup']:
                continue
            for si, st in enumerate(b['s']):
                if st[0] == '=' and st[1] == 0:
                    sp = self._split_bool(fn, st[2], False, label)
                    if sp is not None:
                        out.extend(sp)
                        continue
                    t = shorten(fn.term_rvalue(st[2], 0))
                    if t == 'true':
                        continue
                    out.append(Site(fn, bi, si, 'ret', t, extra=[] if t == 'false' else [core.negate(t)], label=label))
            t = b['t']
            if t[0] == 'call' and t[3] == 0:
                tt = shorten(fn.term_call(t, 0))
                out.append(Site(fn, bi, None, 'ret', tt, extra=[core.negate(tt)], label=label))
        return self._number(out)

    def true_returns(self, fn, label='true'):
        """sites where a bool function returns true: `_0 = true`, or `_0 = <term>` (then <term>
        itself is an additional proposition at the site)"""
        out = []
        for bi, b in enumerate(fn.blocks):
            if b['cleanup']:
                continue
            for si, st in enumerate(b['s']):
                if st[0] == '=' and st[1] == 0:
                    sp = self._split_bool(fn, st[2], True, label)
                    if sp is not None:
                        out.extend(sp)
                        continue
                    t = shorten(fn.term_rvalue(st[2], 0))
                    if t == 'false':
                        continue
                    out.append(Site(fn, bi, si, 'ret', t, extra=[] if t == 'true' else [t], label=label))
            t = b['t']
            if t[0] == 'call' and t[3] == 0:
                tt = shorten(fn.term_call(t, 0))
                out.append(Site(fn, bi, None, 'ret', tt, extra=[tt], label=label))
        return self._number(out)

    # ------------------------------------------------------------ single assignment of a named local
    def single_def(self, rule, fn, what, expect_rx):
        """the user variable(s) of fn whose value is `expect_rx` (a regex over the shortened term) are defined exactly once (never
        re-assigned): a term cannot tell two evaluations of an impure expression (Instant::now(), a random draw) apart, so "the
        deadline is now + timeout" has to be paired with "and it is computed once".  The variable is found by its VALUE, not by its
        name.  Fails closed when no such variable exists."""
        rx = re.compile(expect_rx)
        hits = []
        for n, l in (fn.meta.get('body') or {}).get('vars', []):
            if not isinstance(l, int) or l <= fn.argc:
                continue
            try:
                t = shorten(fn.term_local(l))
            except Exception:
                continue
            if rx.search(t) and l not in [h[0] for h in hits]:
                hits.append((l, n, t))
        self.check(rule, len(hits) >= 1, fn.path, 'var', what + ':variable-present', f'{len(hits)} user variables hold {expect_rx[:60]}')
        ok = bool(hits)
        for l, n, t in hits:
            ds = fn.defs().get(l, [])
            good = len(ds) == 1
            self.check(rule, good, fn.path, 'var', what, f'{len(ds)} definitions of the variable holding {t[:100]}', fn.loc(ds[-1][0]) if ds else '')
            ok &= good
        return ok

    # ------------------------------------------------------------ aggregate constructions by field name
    def constructions(self, fn, adt_path, variant=None):
        """[(Site, {field name: term})] for every aggregate construction of adt_path (struct / enum variant) in fn"""
        import core
        a = self.prog.adts.get(adt_path)
        out = []
        if not a:
            return out
        short = adt_path.rsplit('::', 1)[-1]
        for bi, b in enumerate(fn.blocks):
            for si, st in enumerate(b['s']):
                if st[0] != '=' or st[2][0] != 'adt' or st[2][1] != adt_path:
                    continue
                vname = st[2][2]
                if variant and vname != variant:
                    continue
                v = next((v_ for v_ in a['variants'] if v_['name'] == vname), None)
                if not v:
                    continue
                terms = [shorten(fn.term_operand(o)) for o in st[2][3]]
                out.append(((bi, si, fn.loc(bi)), {fld[0]: t for fld, t in zip(v['fields'], terms)}))
        return out

    # ------------------------------------------------------------ exact boolean functions
    def bool_cnf(self, rule, fn, clauses, what):
        """the bool function `fn` computes exactly AND over `clauses` of OR over the clause's propositions (regexes over
        shortened normal-form propositions, without anchors): nothing else can make it true and nothing else can make it
        false.  Every true return crosses, for each clause, an edge establishing one of its propositions; every false
        return crosses the negation of every proposition of some clause."""
        # a literal is a regex, or a pair (regex, regex of its negation) where the negation has its own normal form
        # (primitive comparisons: !lt(a,b) is rendered le(b,a))
        pos = [[re.compile('^(?:' + (p[0] if isinstance(p, tuple) else p) + ')$') for p in cl] for cl in clauses]
        neg = [[re.compile('^(?:' + p[1] + ')$') if isinstance(p, tuple) else
                (re.compile('^(?:' + p[1:] + ')$') if p.startswith('!') else re.compile('^!(?:' + p + ')$')) for p in cl] for cl in clauses]
        tr, fr = self.true_returns(fn), self.false_returns(fn)

        def crosses_any(site, rxs):
            if any(rx.search(x) for rx in rxs for x in site.extra):
                return True

            def edge_ok(bb, s_, ps):
                return not any(rx.search(shorten(p_)) for rx in rxs for p_ in ps)
            return site.bb not in self.reach(fn).run(edge_ok=edge_ok, start=0)

        def crosses_all(site, rxs):
            return all(crosses_any(site, [rx]) for rx in rxs)
        ok_all = True
        for s in tr:
            ok = all(crosses_any(s, cl) for cl in pos)
            self.check(rule, ok, fn.path, s.key(), what + ':true-needs-every-clause', s.term[:160] + ' ' + ' '.join(s.extra)[:160], s.loc)
            ok_all &= ok
        import itertools
        for s in fr:
            # exact, per path: there is no path to this false return on which every clause still holds, i.e. for every way of
            # picking one literal per clause, the paths that never cross the negation of any picked literal do not reach it
            ok = any(crosses_all(s, cl) for cl in neg)
            if not ok and len(list(itertools.islice(itertools.product(*neg), 0, 257))) <= 256:
                ok = all(crosses_any(s, list(pick)) for pick in itertools.product(*neg))
            self.check(rule, ok, fn.path, s.key(), what + ':false-only-when-a-clause-fails', s.term[:160] + ' ' + ' '.join(s.extra)[:160], s.loc)
            ok_all &= ok
        self.check(rule, len(tr) >= 1 and len(fr) >= 1, fn.path, 'returns', what + ':both-outcomes-present', f'{len(tr)} true, {len(fr)} false returns')
        return ok_all

    def crosses_any(self, fn, site, rxs):
        """every normal path from the entry of fn to `site` crosses an edge establishing a proposition matching one of rxs"""
        rxs = [re.compile('^(?:' + r + ')$') if isinstance(r, str) else r for r in rxs]
        if any(rx.search(x) for rx in rxs for x in site.extra):
            return True

        def edge_ok(bb, s_, ps):
            return not any(rx.search(shorten(p_)) for rx in rxs for p_ in ps)
        return site.bb not in self.reach(fn).run(edge_ok=edge_ok, start=0)

    def outcome_dnf(self, rule, fn, outcomes, rest, what):
        """multi-valued exact decision: `outcomes` maps a return-term regex to a DNF (list of conjunctions, each a list of
        proposition regexes with their negations: (prop, negated_prop)).  Every return matching the regex must carry the DNF
        (checked as its CNF expansion with cut-sets: one literal of every disjunct on every path); every return matching
        `rest` must carry the negation of every listed DNF (for each conjunction, the negation of one of its literals)."""
        import itertools
        rets = self.returns(fn, r'.')
        seen = set()
        ok_all = True
        for rx, dnf in outcomes.items():
            ss = [s for s in rets if re.search(rx, s.term)]
            self.check(rule, len(ss) >= 1, fn.path, 'returns', what + ':outcome-present:' + rx, f'{len(ss)} returns')
            for s in ss:
                seen.add(id(s))
                ok = all(self.crosses_any(fn, s, [lit[0] for lit in choice]) for choice in itertools.product(*dnf))
                self.check(rule, ok, fn.path, s.key(), what + ':outcome-only-under-its-condition', s.term[:120], s.loc)
                ok_all &= ok
        for s in rets:
            if id(s) in seen:
                continue
            okm = bool(re.search(rest, s.term))
            self.check(rule, okm, fn.path, s.key(), what + ':no-other-outcome', s.term[:120], s.loc)
            if okm:
                ok = all(self.crosses_any(fn, s, [lit[1] for lit in conj]) for dnf in outcomes.values() for conj in dnf)
                self.check(rule, ok, fn.path, s.key(), what + ':remaining-outcome-only-when-no-condition-holds', s.term[:120], s.loc)
                ok_all &= ok
        return ok_all

    def bool_exact(self, rule, fn, mode, props, what):
        """OR (mode='or') / AND (mode='and') of the given propositions, exactly"""
        return self.bool_cnf(rule, fn, [list(props)] if mode == 'or' else [[p] for p in props], what)

    # ------------------------------------------------------------ GUARD
    def has_guard(self, site, pattern, start=0):
        fn = site.fn
        rx = re.compile(pattern)
        if any(rx.search(p) for p in site.extra):
            return True

        def edge_ok(bb, s, props):
            return not any(rx.search(shorten(p)) for p in props)
        seen = self.reach(fn).run(edge_ok=edge_ok, start=start)
        return site.bb not in seen

    def guard(self, rule, sites, required, expect=None, fn=None):
        """every site must hold every required guard (cut-set semantics). `required` maps a
        guard name to a regex over shortened normal-form propositions. `expect` = reviewed number
        of sites: a different number is itself a violation (new accept site / vanished site)."""
        fnp = fn.path if fn is not None else (sites[0].fn.path if sites else '?')
        if expect is not None:
            ok = len(sites) == expect
            self.oblige(rule, ok, nontrivial_key=(rule, 'count'))
            if not ok:
                self.violation(rule, fnp, 'sites', 'site-count',
                               f'{len(sites)} accept sites found, {expect} reviewed: ' +
                               '; '.join(f'{s.key()} @ {s.loc}' for s in sites))
        for s in sites:
            self.rules[rule]['sites'] += 1
            for name, pat in required.items():
                ok = self.has_guard(s, pat)
                self.oblige(rule, ok, sample={'fn': shorten(s.fn.path), 'site': s.key(), 'loc': s.loc,
                                              'required_guard': name, 'pattern': pat, 'holds': ok},
                            nontrivial_key=(rule, s.fn.path, s.key(), name))
                if not ok:
                    self.violation(rule, s.fn.path, s.key(), 'missing-guard:' + name,
                                   f'no cut set of edges establishing /{pat}/ separates the entry from this site',
                                   s.loc)

    # ------------------------------------------------------------ PATH
    def blocks_of(self, sites):
        return {s.bb for s in sites}

    def must_pass(self, rule, fn, to_sites, via_blocks=None, via_edge=None, start_blocks=None, what='must-pass'):
        """every normal path from the entry (or from each start block) to each target site crosses
        one of via_blocks (or an edge whose proposition matches via_edge)."""
        rx = re.compile(via_edge) if via_edge else None
        via_blocks = set(via_blocks or [])

        def edge_ok(bb, s, props):
            if bb in via_blocks:
                return False
            if rx and any(rx.search(shorten(p)) for p in props):
                return False
            return True
        starts = list(start_blocks) if start_blocks is not None else [0]
        for site in to_sites:
            ok = True
            for st in starts:
                if st in via_blocks:
                    continue
                seen = self.reach(fn).run(edge_ok=edge_ok, start=st)
                if site.bb in seen and site.bb not in via_blocks:
                    ok = False
                elif site.bb in via_blocks:
                    pass
            self.oblige(rule, ok, sample={'fn': shorten(fn.path), 'target': site.key(), 'loc': site.loc,
                                          'via': via_edge or f'{len(via_blocks)} blocks', 'holds': ok},
                        nontrivial_key=(rule, fn.path, site.key(), what))
            if not ok:
                self.violation(rule, fn.path, site.key(), what,
                               'a normal path reaches this site without passing the required point', site.loc)

    def reachable_from(self, fn, start_blocks, avoid_blocks=()):
        avoid = set(avoid_blocks)

        def edge_ok(bb, s, props):
            return bb not in avoid
        out = set()
        for st in start_blocks:
            out |= set(self.reach(fn).run(edge_ok=edge_ok, start=st).keys())
        return out

    # ------------------------------------------------------------ for-all over a collection
    def forall(self, rule, fn, sites, coll_rx, elem_ok_rx, what):
        """every element of the collection (regex on the iterated term) satisfies elem_ok_rx at each
        site. Accepted idioms: (A) a `for` loop whose only way back to the head crosses an elem_ok
        edge; (B) guard `!iter.any(closure)` where the closure returns false only under elem_ok;
        (C) guard `iter.all(closure)` where the closure returns true only under elem_ok."""
        nxt = rf"^ok\(<.* as Iterator>::next\((slice::iter\()?{coll_rx}\)?\)\)$"
        body = [s for bb in range(len(fn.blocks)) for s, ps in fn.edge_props(bb).items()
                if any(re.search(nxt, shorten(p)) for p in ps)]
        for site in sites:
            ok, how = False, ''
            if body:
                rx = re.compile(elem_ok_rx)

                def edge_ok(bb, s, props):
                    return not any(rx.search(shorten(p)) for p in props)
                reach_ = set()
                for st in body:
                    reach_ |= set(self.reach(fn).run(edge_ok=edge_ok, start=st).keys())
                exhausted = self.has_guard(site, nxt.replace('^ok', '^!ok'))
                if site.bb not in reach_ and exhausted:
                    ok, how = True, 'loop'
            if not ok:
                for neg, meth in ((True, 'any'), (False, 'all')):
                    pat = rf"^{'!' if neg else ''}<.* as Iterator>::{meth}\((slice::iter\()?{coll_rx}\)?,closure:([^)]*)\)$"
                    # find the closure named on a guarding edge
                    for bb in range(len(fn.blocks)):
                        for s_, ps in fn.edge_props(bb).items():
                            for p in ps:
                                m = re.search(pat, shorten(p))
                                if not m or not self.has_guard(site, '^' + re.escape(shorten(p)) + '$'):
                                    continue
                                cl = [g for g in self.prog.fns.values() if shorten(g.path) == m.group(m.lastindex) or g.path.endswith(m.group(m.lastindex))]
                                for g in cl:
                                    rets = self.false_returns(g) if neg else self.true_returns(g)
                                    if rets and all(self.has_guard(r, elem_ok_rx.replace('@Some\\.0', '').replace('ELEM', 'arg2')) for r in rets):
                                        ok, how = True, meth
            self.oblige(rule, ok, sample={'fn': shorten(fn.path), 'site': site.key(), 'forall': what, 'idiom': how, 'holds': ok},
                        nontrivial_key=(rule, fn.path, site.key(), 'forall:' + what))
            if not ok:
                self.violation(rule, fn.path, site.key(), 'forall:' + what,
                               f'no accepted idiom (loop / !any / all) establishes /{elem_ok_rx}/ for every element of /{coll_rx}/', site.loc)

    # ------------------------------------------------------------ generic check
    def check(self, rule, ok, fn_path, site_key, what, detail='', loc='', sample=None):
        self.oblige(rule, ok, sample=sample, nontrivial_key=(rule, fn_path, site_key, what))
        if not ok:
            self.violation(rule, fn_path, site_key, what, detail, loc)

    def floor(self, rule, n, floor, what):
        ok = n >= floor
        self.oblige(rule, ok, nontrivial_key=(rule, 'floor', what))
        if not ok:
            self.violation(rule, '-', 'floor', what, f'{n} instances found, floor {floor}')


def render_place(fn, pl):
    if isinstance(pl, int):
        return f'_{pl}'
    return f'_{pl[0]}' + ''.join(pl[1:])


# ------------------------------------------------------------------ who-may-write
def writers(prog, owner_rx, field_rx=None):
    """[(fn, bb, si, owner.field, how)] for every store/mutable borrow of a field whose owning ADT
    matches owner_rx (needs the driver's 'w' annotations) and every aggregate construction."""
    orx = re.compile(owner_rx)
    frx = re.compile(field_rx) if field_rx else None
    out = []
    for f in prog.fns.values():
        for bi, b in enumerate(f.blocks):
            for si, st in enumerate(b['s']):
                if st[0] != '=':
                    continue
                w = st[3] if len(st) > 4 else None
                if w and isinstance(w, dict):
                    for how in ('store', 'mutref'):
                        of = w.get(how)
                        if of:
                            o, fld = of.rsplit('.', 1)
                            if orx.search(o) and (frx is None or frx.search(fld)):
                                out.append((f, bi, si, of, how))
                rv = st[2]
                if rv[0] == 'adt' and orx.search(rv[1]):
                    out.append((f, bi, si, rv[1], 'construct'))
            t = b['t']
            if t[0] == 'call' and len(t) > 6 and isinstance(t[6], dict) and t[6].get('store'):
                of = t[6]['store']
                o, fld = of.rsplit('.', 1)
                if orx.search(o) and (frx is None or frx.search(fld)):
                    out.append((f, bi, None, of, 'store'))
    return out


# ------------------------------------------------------------------ call graph utilities
def cone(prog, roots, stop=None, max_depth=50, cha_ok=None):
    """set of local fn paths reachable from roots via resolved calls + CHA (closures included
    when they are constructed in a reached body).  cha_ok(call, target) -> bool restricts which impls an
    unresolved trait call is expanded to (default: all impls of the trait method)."""
    seen = set()

    def targets(f, c):
        tg = prog.callee_targets(f, c)
        if cha_ok is not None and not c.get('res') and 'op' not in c and c.get('trait') and \
                prog.raw2norm.get(c['def'], core.strip_generics(c['def'])) not in prog.fns:
            tg = [t for t in tg if cha_ok(c, t)]
        return tg
    dq = deque((r, 0) for r in roots)
    stop = stop or (lambda p: False)
    while dq:
        p, d = dq.popleft()
        if p in seen or p not in prog.fns:
            continue
        seen.add(p)
        if stop(p) or d >= max_depth:
            continue
        f = prog.fns[p]
        for bi, c, t in prog.calls_of(f):
            for tgt in targets(f, c):
                if tgt not in seen:
                    dq.append((tgt, d + 1))
        for b in f.blocks:
            for st in b['s']:
                if st[0] == '=' and st[2][0] in ('closure', 'coroutine'):
                    cp = core.strip_generics(st[2][1])
                    if cp not in seen:
                        dq.append((cp, d + 1))
                # fn items passed as values
        # function items referenced as constants (map(Foo::bar))
        for b in f.blocks:
            for st in b['s']:
                if st[0] == '=':
                    for k in iter_consts(st[2]):
                        if 'fn' in k:
                            for tgt in targets(f, k['fn']):
                                if tgt not in seen:
                                    dq.append((tgt, d + 1))
            t = b['t']
            if t[0] == 'call':
                for a in t[2]:
                    if a[0] == 'k' and 'fn' in a[1]:
                        for tgt in targets(f, a[1]['fn']):
                            if tgt not in seen:
                                dq.append((tgt, d + 1))
    return seen


def iter_consts(rv):
    stack = [rv]
    while stack:
        x = stack.pop()
        if isinstance(x, list):
            if len(x) == 2 and x[0] == 'k' and isinstance(x[1], dict):
                yield x[1]
            else:
                stack.extend(x)


# ------------------------------------------------------------------ evidence
def EVD():
    """evidence directory; VERIF_EVIDENCE_DIR redirects it for scratch runs (self-tests), so that the committed evidence always comes
    from a run against /repo itself"""
    return os.environ.get('VERIF_EVIDENCE_DIR') or os.path.join(VERIF, 'evidence')


def finish(cx, explanation, assumptions, not_decided, known_file=None):
    """print the verdict, write evidence + replay files; returns the exit code"""
    known_file = known_file or os.path.join(VERIF, 'known_findings.json')
    known = {}
    if os.path.exists(known_file):
        for e in json.load(open(known_file)).get('findings', []):
            if e.get('property') == cx.prop and e.get('status', 'open') == 'open':
                known[e['key']] = e
    fresh, listed = [], []
    for v in cx.violations:
        (listed if v['key'] in known else fresh).append(v)
    os.makedirs(os.path.join(EVD(), 'replay'), exist_ok=True)
    for v in listed:
        print(f"KNOWN-FINDING: property={cx.prop} {known[v['key']]['id']} {known[v['key']]['what']} [{v['rule']} {v['loc']}]")
    # a listed finding that no longer fires is reported (informational, not an alarm)
    fired = {v['key'] for v in listed}
    for k, e in known.items():
        if k not in fired:
            print(f"note: known finding {e['id']} did not fire on this tree (repaired?): {k}")
    code = 0
    seen_keys = set()
    keep = {f'{cx.prop}-' + hashlib.sha1(v['key'].encode()).hexdigest()[:12] + '.json' for v in fresh}
    for fn_ in os.listdir(os.path.join(EVD(), 'replay')):
        if fn_.startswith(cx.prop + '-') and fn_ not in keep:
            try:
                os.unlink(os.path.join(EVD(), 'replay', fn_))
            except OSError:
                pass
    for v in fresh:
        if v['key'] in seen_keys:
            continue
        seen_keys.add(v['key'])
        h = hashlib.sha1(v['key'].encode()).hexdigest()[:12]
        rp = os.path.join(EVD(), 'replay', f'{cx.prop}-{h}.json')
        json.dump(v, open(rp, 'w'), indent=1)
        print(f"  rule={v['rule']} fn={v['fn']} site={v['site']} {v['what']} @ {v['loc']}\n     {v['detail']}")
        print(f"VIOLATION property={cx.prop} replay={rp}")
        code = 1
    wall = round(time.time() - cx.t0 + cx.info.get('load_s', 0), 2)
    ev = {
        'property_id': cx.prop, 'tier': cx.tier, 'seed': int(os.environ.get('VERIF_SEED', '0') or 0), 'level': 'other',
        'coverage': {
            'explanation': explanation,
            'not_decided': not_decided,
            'obligations': cx.obligations, 'discharged': cx.discharged,
            'evaluations': cx.evaluations, 'distinct_nontrivial': len(cx.nontrivial),
            'rule': 'one evaluation = one (rule instance, site, required clause) decided on the MIR facts of the '
                    'current tree; distinct = distinct (rule, function, site, clause) keys; non-trivial = the '
                    'instance matched a real site in the analysed program (anchors and floors fail closed)',
            'samples': cx.samples[:12],
            'rules': {k: v for k, v in sorted(cx.rules.items())},
            'anchors_resolved': len(cx.anchors),
            'configurations': cx.info.get('configs', [cx.info.get('config')]),
            'bodies_in_scope': cx.prog.stats['bodies'], 'call_sites_in_scope': cx.prog.stats['calls'],
            'call_sites_resolved': cx.prog.stats['resolved'],
            'known_findings_printed': [known[v['key']]['id'] for v in listed],
            'tree': cx.info.get('tree'), 'facts_cached': cx.info.get('cached'),
            'notes': cx.notes,
            'checker_cmd': f'./check {cx.prop} --tier {cx.tier}',
            'trusted_base': ['rustc nightly MIR construction + type resolution', 'mirfacts driver rendering',
                             'engine/core.py term tracing and reachability', 'rule tables in rules/' + cx.prop + '.py'],
        },
        'assumptions': assumptions,
        'wall_s': wall,
        'violations': len(seen_keys),
    }
    p = os.path.join(EVD(), cx.prop + '.json')
    json.dump(ev, open(p + '.tmp', 'w'), indent=1)
    os.replace(p + '.tmp', p)
    print(f"[{cx.prop}] tier={cx.tier} obligations={cx.obligations} discharged={cx.discharged} "
          f"violations={len(seen_keys)} known={len(listed)} anchors={len(cx.anchors)} wall={wall}s")
    return code

"""debug aid: print a function's normal-path CFG with traced terms and edge propositions"""
import sys, os, json
sys.path.insert(0, os.path.dirname(os.path.abspath(__file__)))
import facts, core, api
NOISE = {'debug', 'trace', 'warn', 'info', 'error', 'event', 'debug_assert', 'debug_assert_eq', 'debug_assert_ne'}

def noisy(sp):
    return len(sp) > 2 and sp[2] in NOISE

def dump(prog, f, props_only=False, width=260):
    print('==', f.path, f'{f.file}:{f.line}', 'argc', f.argc, 'vars', {v: k for v, k in f.varname.items() if v <= f.argc})
    sh = api.shorten
    for bi, b in enumerate(f.blocks):
        if b['cleanup'] or noisy(b['sp']):
            continue
        t = b['t']
        if not props_only:
            for si, st in enumerate(b['s']):
                if st[0] == '=' and not noisy(st[-1]):
                    pl = st[1]
                    print(f'   bb{bi}.{si} {api.render_place(f, pl)} = {sh(f.term_rvalue(st[2], 0))[:width]}   @{st[-1][0]}')
        if t[0] == 'call':
            print(f'  bb{bi}: {api.render_place(f, t[3])} = {sh(f.term_call(t, 0))[:width]} -> bb{t[4]}   @{b["sp"][0]}')
        elif t[0] == 'switch':
            ep = f.edge_props(bi)
            print(f'  bb{bi}: switch ' + '; '.join(f'bb{s}: {sh(" & ".join(p))[:width]}' for s, p in ep.items()) + f'   @{b["sp"][0]}')
        elif t[0] == 'goto':
            pass
        else:
            print(f'  bb{bi}: {t[0]} {t[1:] if t[0] in ("return","yield","assert") else ""}   @{b["sp"][0]}')

if __name__ == '__main__':
    crates, info = facts.load(os.environ.get('VERIF_CONFIG', 'FULL'))
    prog = core.Program(crates)
    mode = sys.argv[2] if len(sys.argv) > 2 else 'p'
    for f in prog.find(sys.argv[1]):
        if mode == 'l':
            print(f.path, f'{f.file}:{f.line}')
        else:
            dump(prog, f, props_only=(mode == 'p'))

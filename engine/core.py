"""E2 core: program model over the mirfacts JSON — normal-path CFG, access-path terms,
guard normal form, value-sensitive reachability and cut-set guard checks.

Nothing here executes hickory-dns code; everything is computed from the MIR facts."""
import json, os, re
from collections import defaultdict, deque

# ------------------------------------------------------------------ helpers
_GEN = re.compile(r'::<[^<>]*(?:<[^<>]*(?:<[^<>]*>[^<>]*)*>[^<>]*)*>')


# closures are named by role, not by rustc's per-function ordinal: `f::{closure#7}` becomes
# `f::{closure@any#0}` (first closure of f passed to a call of `..::any`).  An unrelated closure added to f
# (a new tracing macro, a new `.map(|x| ..)`) then does not shift the names the rules anchor on.
# Async-fn bodies (`f::{closure#0}` assigned to the return place) keep their name.
CLOSURE_RENAME = {}
_CLSEG = re.compile(r'::\{closure#\d+\}')


def _strip(p):
    prev = None
    while prev != p:
        prev = p
        p = _GEN.sub('', p)
    return p


def strip_generics(p):
    """hickory_proto::rr::RecordRef::<'_, R>::data -> hickory_proto::rr::RecordRef::data (+ role names for closures)"""
    p = _strip(p)
    if CLOSURE_RENAME and '{closure#' in p:
        ends = [m.end() for m in _CLSEG.finditer(p)]
        for e in reversed(ends):
            r = CLOSURE_RENAME.get(p[:e])
            if r is not None:
                return r + p[e:]
    return p


_NOISE = re.compile(r'(^|::)(fmt|Arguments|Argument|Callsite|DefaultCallsite|FieldSet|Interest|LevelFilter|Metadata|Event|ValueSet|__macro_support|field|'
                    r'Try|FromResidual|Deref|DerefMut|Clone|Into|From|Borrow|AsRef|IntoIterator|IntoFuture|Pin|Future|future)(<[^>]*>)?(>)?::')


def closure_tokens(body):
    """content tokens of a closure body (callee names without tracing/plumbing noise, field names): used only to tell
    same-role sibling closures apart, never as a verdict"""
    toks = set()
    for b in body['blocks']:
        if b.get('cleanup'):
            continue
        t = b['t']
        if t[0] == 'call' and 'op' not in t[1]:
            nm = _strip(t[1].get('res') or t[1].get('def', ''))
            if '{closure' in nm.rsplit('::', 1)[-1]:
                continue
            l2 = '::'.join(nm.split('::')[-2:])
            if not _NOISE.search('::' + l2) and not _NOISE.search(nm):
                toks.add(l2)

        def walk(x):
            if isinstance(x, list):
                for y in x:
                    if isinstance(y, str) and len(y) > 2 and y[0] == '.' and not y[1:].isdigit() and not y.startswith('.cap:'):
                        toks.add(y)
                    else:
                        walk(y)
        for st in b['s']:
            walk(st[1:3])
    return sorted(toks)


def closure_roles(crates, pins=None):
    """old stripped closure path -> role-based path, from the construction site of each closure.
    pins: {role-based path: content tokens} of closures the rules anchor on; among same-role siblings the closure whose
    tokens are most similar to the pinned ones gets the pinned name (so a new same-role closure does not shift it)"""
    pins = pins or {}
    bodies = {}
    for doc in crates.values():
        for rawp, meta in doc['fns'].items():
            if meta.get('body') and '{closure#' in rawp:
                bodies.setdefault(_strip(rawp), meta['body'])
    info = {}     # old path -> (parent old path, N, role or None)
    for doc in crates.values():
        for rawp, meta in doc['fns'].items():
            body = meta.get('body')
            if not body:
                continue
            parent = _strip(rawp)
            blocks = body['blocks']
            for b in blocks:
                for st in b['s']:
                    if st[0] != '=' or st[2][0] not in ('closure', 'coroutine'):
                        continue
                    cp = _strip(st[2][1])
                    m = re.search(r'\{closure#(\d+)\}$', cp)
                    if not m or cp in info:
                        continue
                    n = int(m.group(1))
                    L = st[1]
                    if st[2][0] == 'coroutine' and L == 0:
                        info[cp] = (parent, n, None)          # async fn body: keep
                        continue
                    holders = {L} if isinstance(L, int) else set()
                    for b2 in blocks:                          # one level of plain moves
                        for s2 in b2['s']:
                            if s2[0] == '=' and isinstance(s2[1], int) and s2[2][0] == 'use' and s2[2][1][0] in ('m', 'c') and isinstance(s2[2][1][1], int) and s2[2][1][1] in holders:
                                holders.add(s2[1])
                    role = None
                    for b2 in blocks:
                        t = b2['t']
                        if t[0] != 'call' or 'op' in t[1]:
                            continue
                        if any(a[0] in ('m', 'c') and isinstance(a[1], int) and a[1] in holders for a in t[2]):
                            d = _strip(t[1].get('def', ''))
                            role = 'call' if d == cp else re.sub(r'[^A-Za-z0-9_]', '', d.split('::')[-1]) or 'fn'
                            break
                    info[cp] = (parent, n, role or 'val')
    # ordinals per (parent, role), parents renamed first (shorter paths first)
    groups = defaultdict(list)
    for cp, (parent, n, role) in info.items():
        if role is not None:
            groups[(parent, role)].append((n, cp))
    out = {}
    done_groups = set()

    def assign(parent, role):
        """names for the same-role closures of one parent (parent already renamed)"""
        lst = sorted(groups[(parent, role)])
        np_ = out.get(parent, parent)
        names = [f'{np_}::{{closure@{role}#{k}}}' for k in range(len(lst))]
        order = [cp for n, cp in lst]
        # pinned names beyond the current sibling count cannot be placed; pins for this parent/role:
        prefix = f'{np_}::{{closure@{role}#'
        want = sorted((nm for nm in pins if nm.startswith(prefix) and nm.count('::{closure') == prefix.count('::{closure')),
                      key=lambda x: int(re.search(r'#(\d+)\}$', x).group(1)))
        if len(lst) > 1 and want:
            free = list(order)
            taken = {}
            # best-scoring (pinned name, closure) pairs first; ties go to the lower pinned index, then to the earlier closure - so a
            # pinned closure that has left this parent (moved into a helper, rewritten as a loop) does not push its name onto a sibling
            # that fits a later pin exactly
            scores = []
            for wi, nm in enumerate(want):
                pt = set(pins[nm])
                for ci, cp in enumerate(order):
                    ct = set(closure_tokens(bodies[cp])) if cp in bodies else set()
                    u = len(pt | ct)
                    scores.append((-((len(pt & ct) / u) if u else 1.0), wi, ci, nm, cp))
            for sc, wi, ci, nm, cp in sorted(scores):
                if nm in taken or cp not in free:
                    continue
                taken[nm] = cp
                free.remove(cp)
            used = set(taken)
            rest = [nm for nm in names if nm not in used]
            extra_k = len(names)
            for cp in free:
                if rest:
                    taken[rest.pop(0)] = cp
                else:
                    taken[f'{np_}::{{closure@{role}#{extra_k}}}'] = cp
                    extra_k += 1
            for nm, cp in taken.items():
                out[cp] = nm
        else:
            for nm, cp in zip(names, order):
                out[cp] = nm
    for cp in sorted(info, key=lambda x: x.count('::{closure#')):
        parent, n, role = info[cp]
        if role is None:
            np_ = out.get(parent, parent)
            if np_ != parent:
                out[cp] = np_ + cp[len(parent):]
            continue
        if (parent, role) not in done_groups:
            done_groups.add((parent, role))
            assign(parent, role)
    return out


def last2(p):
    return '::'.join(p.split('::')[-2:])


TRANSPARENT = {
    'Deref::deref', 'DerefMut::deref_mut', 'AsRef::as_ref', 'Borrow::borrow', 'Clone::clone', 'AsMut::as_mut',
    'ToOwned::to_owned', 'IntoIterator::into_iter', 'Option::as_ref', 'Option::as_mut', 'Option::as_deref',
    'Result::as_ref', 'Result::as_mut', 'Pin::new', 'Pin::new_unchecked', 'Pin::as_mut', 'Pin::get_mut',
    'Option::copied', 'Option::cloned', 'IntoFuture::into_future', 'Box::new', 'Box::pin', 'Arc::new', 'Option::take',
    'Pin::into_inner', 'Pin::get_unchecked_mut', 'Pin::map_unchecked_mut',
}
CMP_CALLS = {
    'PartialOrd::lt': 'lt', 'PartialOrd::le': 'le', 'PartialOrd::gt': 'gt',
    'PartialOrd::ge': 'ge', 'PartialEq::eq': 'eq', 'PartialEq::ne': 'ne',
}
BINOPS = {'Lt': 'lt', 'Le': 'le', 'Gt': 'gt', 'Ge': 'ge', 'Eq': 'eq', 'Ne': 'ne'}
PRIMS = {'u8', 'u16', 'u32', 'u64', 'u128', 'usize', 'i8', 'i16', 'i32', 'i64', 'i128', 'isize', 'bool', 'char'}
OPTION_PREDS = {
    'Option::is_some': ('ok', False), 'Option::is_none': ('ok', True),
    'Result::is_ok': ('ok', False), 'Result::is_err': ('ok', True),
}
MAX_DEPTH = 48
MAX_TERM = 2500


def short_ty(t):
    t = t.replace('&mut ', '').replace('&', '').strip()
    t = re.sub(r"'\w+ ?,? ?", '', t)
    t = strip_generics(t)
    t = re.sub(r'<.*$', '', t)
    return t.split('::')[-1]


class Fn:
    def __init__(self, path, meta, crate, prog):
        self.path = path
        self.meta = meta
        self.crate = crate
        self.prog = prog
        b = meta['body']
        self.argc = b['argc']
        self.arg_perm = None
        self.locals = b['locals']
        self.blocks = b['blocks']
        self.promoted = meta.get('promoted', [])
        self.file = meta.get('file')
        self.line = meta.get('line')
        self.varname = {}
        for name, pl in b['vars']:
            if isinstance(pl, int):
                self.varname.setdefault(pl, name)
        self._defs = None
        self._succ = None
        self._pred = None
        self._tcache = {}
        self._props = {}

    # ---------------------------------------------------------- CFG (normal paths)
    def succs(self, bb):
        if self._succ is None:
            self._succ = [self._succs(i) for i in range(len(self.blocks))]
        return self._succ[bb]

    def _succs(self, bb):
        t = self.blocks[bb]['t']
        k = t[0]
        if k == 'goto':
            return [t[1]]
        if k == 'switch':
            out = []
            for _, b in t[2]:
                if b not in out:
                    out.append(b)
            if t[3] not in out and self._otherwise_feasible(bb):
                out.append(t[3])
            return out
        if k == 'call':
            return [t[4]] if t[4] is not None else []
        if k == 'assert':
            return [t[5]]
        if k == 'drop':
            return [t[2]]
        if k == 'yield':
            return [t[2]]
        return []

    def _otherwise_feasible(self, bb):
        """the `otherwise` edge of a switch on an enum discriminant is infeasible when the listed values are all the variants of
        the enum (`match (a, b) { (X, Some(_)) => .., (X, None) => .., (_, _) => .. }` routes the inner otherwise to the wildcard
        arm: a path that does not exist)"""
        t = self.blocks[bb]['t']
        op = t[1]
        if op[0] not in ('c', 'm') or not isinstance(op[1], int):
            return True
        l = op[1]
        d = None
        for b in self.blocks:
            if b['cleanup']:
                continue
            for st in b['s']:
                if st[0] == '=' and st[1] == l:
                    if d is not None:
                        return True
                    d = st[2]
            if b['t'][0] == 'call' and b['t'][3] == l:
                return True
        if not d or d[0] != 'discr' or len(d) < 3 or not d[2]:
            return True
        adt = self.prog.adts.get(d[2]) if self.prog is not None else None
        if not adt or adt.get('kind') != 'enum' or not adt.get('variants'):
            return True
        have = {v for v, _ in t[2]}
        return not all(v_['discr'] in have for v_ in adt['variants'])

    def preds(self, bb):
        if self._pred is None:
            self._pred = defaultdict(list)
            for i in range(len(self.blocks)):
                for s in self.succs(i):
                    self._pred[s].append(i)
        return self._pred[bb]

    def is_cleanup(self, bb):
        return self.blocks[bb]['cleanup']

    def loc(self, bb, si=None):
        b = self.blocks[bb]
        sp = b['sp'] if si is None or si >= len(b['s']) else b['s'][si][-1]
        return f"{self.file}:{sp[0]}"

    def span(self, bb, si=None):
        b = self.blocks[bb]
        return b['sp'] if si is None or si >= len(b['s']) else b['s'][si][-1]

    # ---------------------------------------------------------- definitions
    def defs(self):
        """local -> list of (bb, si|None, kind, payload); kind in assign|call|yield|partial"""
        if self._defs is None:
            d = defaultdict(list)
            for bi, b in enumerate(self.blocks):
                if b['cleanup']:
                    continue
                for si, st in enumerate(b['s']):
                    if st[0] == '=':
                        pl = st[1]
                        if isinstance(pl, int):
                            d[pl].append((bi, si, 'assign', st[2]))
                        else:
                            d[pl[0]].append((bi, si, 'partial', (pl, st[2])))
                    elif st[0] == 'setdiscr':
                        pl = st[1]
                        l = pl if isinstance(pl, int) else pl[0]
                        d[l].append((bi, si, 'partial', (pl, ['setdiscr', st[2]])))
                t = b['t']
                if t[0] == 'call':
                    pl = t[3]
                    if isinstance(pl, int):
                        d[pl].append((bi, None, 'call', t))
                    else:
                        d[pl[0]].append((bi, None, 'partial', (pl, t)))
                elif t[0] == 'yield':
                    pass
            self._defs = d
        return self._defs

    # ---------------------------------------------------------- terms
    def callee_name(self, c):
        if 'op' in c:
            return None
        return strip_generics(c.get('res') or c['def'])

    def callee_names(self, c):
        """both the declared and the resolved name (generics stripped)"""
        if 'op' in c:
            return []
        out = [strip_generics(c['def'])]
        if c.get('res'):
            r = strip_generics(c['res'])
            if r not in out:
                out.append(r)
        return out

    def term_place(self, pl, depth=0, at=None):
        if isinstance(pl, int):
            return self.term_local(pl, depth, at)
        base = pl[0]
        projs = pl[1:]
        # closure capture?
        i = 0
        while i < len(projs) and projs[i] == '*':
            i += 1
        if base == 1 and i < len(projs) and projs[i].startswith('.cap:') and self.meta['kind'] == 'Closure':
            n = int(projs[i][5:])
            t = self.capture_term(n, depth)
            rest = projs[i + 1:]
        else:
            t = self.term_local(base, depth, at)
            rest = projs
        for p in rest:
            if p == '*':
                continue
            if p[0] == '.' and p[1:].isdigit() and t.startswith('(') and t.endswith(')'):
                parts = split_args(t[1:-1])
                if int(p[1:]) < len(parts) and balanced(t[1:-1]):
                    t = parts[int(p[1:])]
                    continue
            t = f'{t}{p}'
        return t

    def capture_term(self, n, depth):
        par = self.prog.fns.get(self.meta.get('parent_fn'))
        name = None
        for nm, pl in self.meta['body']['vars']:
            if isinstance(pl, list) and pl[0] == 1 and f'.cap:{n}' in pl:
                name = nm
        site = self.prog.closure_site(self.path)
        if site is None or depth > MAX_DEPTH:
            return f'cap{n}' + (f'<{name}>' if name else '')
        pf, ops = site
        if n >= len(ops):
            return f'cap{n}'
        t = pf.term_operand(ops[n], depth + 1)
        return lift_capture(t)

    def term_local(self, l, depth=0, at=None):
        if 1 <= l <= self.argc:
            return f'arg{self.arg_perm.get(l, l)}' if self.arg_perm else f'arg{l}'
        key = l
        if key in self._tcache:
            return self._tcache[key]
        if depth > MAX_DEPTH:
            return f'deep(_{l})'
        ds = self.defs().get(l, [])
        full = [d for d in ds if d[2] != 'partial']
        part = [d for d in ds if d[2] == 'partial']
        name = self.varname.get(l)
        self._tcache[key] = f'rec(_{l})'
        if len(full) == 1 and not part:
            t = self.term_def(full[0], depth + 1)
        elif len(full) == 0 and not part:
            t = f'undef(_{l})'
        elif len(full) <= 4 and not part:
            alts = []
            for d in full:
                a = self.term_def(d, depth + 2)
                if a not in alts:
                    alts.append(a)
            t = alts[0] if len(alts) == 1 else 'phi(' + '|'.join(alts) + ')'
        else:
            t = f'var({name or "_" + str(l)})'
        if len(t) > MAX_TERM:
            t = f'long(_{l})'
        if 'deep(' in t or 'rec(' in t:
            # do not memoise a depth-truncated or cycle-cut result
            self._tcache.pop(key, None)
        else:
            self._tcache[key] = t
        return t

    def term_def(self, d, depth):
        bi, si, kind, payload = d
        if kind == 'assign':
            return self.term_rvalue(payload, depth)
        if kind == 'call':
            return self.term_call(payload, depth)
        return '?'

    def term_const(self, k, depth):
        if 'fn' in k:
            return 'fn:' + strip_generics(k['fn'].get('res') or k['fn']['def'])
        if 'int' in k:
            if k['ty'] == 'bool':
                return 'true' if k['int'] else 'false'
            if 'adt' in k:
                a = self.prog.adts.get(k['adt'])
                if a and a['kind'] == 'enum':
                    for v in a['variants']:
                        if v['discr'] == k['int']:
                            return f"{short_ty(k['adt'])}::{v['name']}"
            return str(k['int'])
        if 'zst' in k:
            z = k['zst']
            return '()' if z == '()' else 'zst:' + strip_generics(z)
        if 'named' in k:
            if k.get('promoted') is not None:
                nm = self.prog.raw2norm.get(k['named'], strip_generics(k['named']))
                f = self.prog.fns.get(nm)
                if f is None or nm == self.path.split('::promoted[')[0]:
                    f = self
                if f is not None and k['promoted'] < len(f.promoted):
                    return f.promoted_term(k['promoted'], depth + 1)
                return f"promoted({k['promoted']})"
            return 'const:' + strip_generics(k['named'])
        if 'lit' in k:
            return 'lit:' + k['lit']
        return 'k?'

    def promoted_term(self, idx, depth):
        pb = self.promoted[idx]
        sub = Fn(self.path + f'::promoted[{idx}]', dict(self.meta, body=pb, promoted=self.promoted), self.crate, self.prog)
        return sub.term_local(0, depth)

    def term_operand(self, op, depth=0):
        if op[0] in ('c', 'm'):
            return self.term_place(op[1], depth)
        if op[0] == 'k':
            return self.term_const(op[1], depth)
        return '?'

    def term_rvalue(self, rv, depth):
        k = rv[0]
        if k == 'use':
            return self.term_operand(rv[1], depth)
        if k in ('ref', 'raw'):
            return self.term_place(rv[1], depth)
        if k == 'bin':
            op = rv[1]
            a = self.term_operand(rv[2], depth)
            b = self.term_operand(rv[3], depth)
            if op in BINOPS:
                return norm_cmp(BINOPS[op], a, b, prim=True)
            return f'{op.lower()}({a},{b})'
        if k == 'un':
            a = self.term_operand(rv[2], depth)
            if rv[1] == 'Not':
                return negate(a)
            if rv[1] == 'PtrMetadata':
                return f'len({a})'
            return f'{rv[1].lower()}({a})'
        if k == 'cast':
            a = self.term_operand(rv[2], depth)
            if rv[1].startswith('IntToInt') or rv[1].startswith('FloatToInt') or rv[1].startswith('IntToFloat'):
                return f'cast<{rv[3]}>({a})'
            return a
        if k == 'discr':
            return f'discr({self.term_place(rv[1], depth)})'
        if k == 'adt':
            fs = ','.join(self.term_operand(o, depth) for o in rv[3])
            adt = self.prog.adts.get(rv[1])
            nm = short_ty(rv[1])
            if adt and adt['kind'] == 'enum':
                nm = f'{nm}::{rv[2]}'
            return f'{nm}({fs})' if rv[3] else nm
        if k == 'tuple':
            return '(' + ','.join(self.term_operand(o, depth) for o in rv[1]) + ')'
        if k == 'array':
            return '[' + ','.join(self.term_operand(o, depth) for o in rv[1]) + ']'
        if k in ('closure', 'coroutine'):
            cp = strip_generics(rv[1])
            if re.search(r'::\{closure@[^{}]*\}$', cp) and not cp.startswith(self.path + '::{closure'):
                # built here by the expanded copy of a transparent helper: named as if it had been written in this function, when
                # that name is free (cx.fn resolves the name back to the helper's closure)
                role = cp.rsplit('::{closure@', 1)[1]
                k_ = 0
                while f'{self.path}::{{closure@{role.split("#", 1)[0]}#{k_}}}' in self.prog.fns:
                    k_ += 1
                cp = f'{self.path}::{{closure@{role.split("#", 1)[0]}#{k_}}}'
            return f'{k}:{cp}'
        if k == 'repeat':
            return f'repeat({self.term_operand(rv[1], depth)})'
        return 'rv?' + str(rv[1])[:40]

    def term_call(self, t, depth):
        c = t[1]
        args = [self.term_operand(a, depth) for a in t[2]]
        if 'op' in c:
            return f'indirect({self.term_operand(c["op"], depth)})(' + ','.join(args) + ')'
        d = last2(strip_generics(c['def']))
        if d in TRANSPARENT and args:
            return args[0]
        if d in CMP_CALLS and len(args) == 2:
            st = c.get('self', '')
            prim = st.lstrip('&') in PRIMS
            return norm_cmp(CMP_CALLS[d], args[0], args[1], prim=prim, ty=None if prim else short_ty(st))
        if d in OPTION_PREDS and args:
            f, neg = OPTION_PREDS[d]
            r = f'ok({args[0]})'
            return negate(r) if neg else r
        if d == 'Try::branch' and args:
            return f'try({args[0]})'
        if d in ('Into::into', 'From::from') and args:
            return f'into<{short_ty(self.locals[t[3]] if isinstance(t[3], int) else "")}>({args[0]})'
        name = strip_generics(c.get('res') or c['def']).replace(', ', ';').replace(',', ';')
        tf = self.prog.fns.get(self.prog.raw2norm.get(c.get('res') or c['def'], strip_generics(c.get('res') or c['def']))) if self.prog.perm_fns else None
        if tf is not None and tf.arg_perm and len(args) == tf.argc:
            # the callee's parameters were reordered since the rules were reviewed: arguments are listed in the reviewed order
            re_ = list(args)
            for cur, base in tf.arg_perm.items():
                re_[base - 1] = args[cur - 1]
            args = re_
        # awaiting an async fn / async block: poll of the coroutine body built by the call
        if len(args) == 2 and 'get_context(' in args[1] and (re.search(r'::\{closure[^}]*\}$', name) or name.endswith('::poll')):
            return f'await({args[0]})'
        return f'{name}(' + ','.join(args) + ')'

    # ---------------------------------------------------------- edge propositions
    def edge_props(self, bb):
        """succ -> list of propositions established by taking the edge bb->succ"""
        if bb in self._props:
            return self._props[bb]
        out = defaultdict(list)
        t = self.blocks[bb]['t']
        if t[0] == 'switch':
            term = self.term_operand(t[1])
            arms = t[2]
            other = t[3]
            ty = t[4]
            if ty == 'bool':
                for v, b in arms:
                    out[b].append(negate(term) if v == 0 else term)
                if len(arms) == 1:
                    v = arms[0][0]
                    out[other].append(term if v == 0 else negate(term))
            elif term.startswith('discr('):
                inner = term[6:-1]
                adt = self._discr_adt(t[1])
                names = {}
                if adt:
                    for v in adt['variants']:
                        names[v['discr']] = v['name']
                listed = []
                by_t = defaultdict(list)
                for v, b in arms:
                    nm = names.get(v, str(v))
                    listed.append(nm)
                    by_t[b].append(nm)
                for b, nms in by_t.items():
                    # several variants sharing one target establish only their disjunction
                    out[b].append(variant_prop(inner, nms[0]) if len(nms) == 1 else f'in({inner},{"|".join(nms)})')
                rest = [n for n in names.values() if n not in listed]
                if len(rest) == 1:
                    out[other].append(variant_prop(inner, rest[0]))
                elif rest:
                    out[other].append(f'in({inner},{"|".join(rest)})')
            else:
                vals = []
                by_t = defaultdict(list)
                for v, b in arms:
                    vals.append(str(v))
                    by_t[b].append(str(v))
                for b, vs in by_t.items():
                    out[b].append(norm_cmp('eq', term, vs[0], prim=True) if len(vs) == 1 else 'in(' + term + ',' + '|'.join(vs) + ')')
                out[other].append('!in(' + term + ',' + '|'.join(vals) + ')')
        self._enum_aliases(bb, out)
        self._props[bb] = out
        return out

    def _enum_aliases(self, bb, out):
        """`x == T::V` (PartialEq on a field-less enum) and `matches!(x, T::V)` / `match x { T::V => .. }` (discriminant test) are
        the same test: every edge labelled with one form is also labelled with the other, and with the negations it implies for
        the other variants (small enums only)."""
        t = self.blocks[bb]['t']
        if t[0] != 'switch' or self.prog is None:
            return
        add = defaultdict(list)
        try:
            term = self.term_operand(t[1])
        except Exception:
            return
        if t[4] != 'bool' and term.startswith('discr('):
            inner = term[6:-1]
            path = None
            if t[1][0] in ('c', 'm') and isinstance(t[1][1], int):
                for d in self.defs().get(t[1][1], []):
                    if d[2] == 'assign' and d[3][0] == 'discr':
                        path = d[3][2]
            adt = self.prog.adts.get(path) if path else None
            if not adt or adt.get('kind') != 'enum' or len(adt['variants']) > 12 or any(v.get('fields') for v in adt['variants']):
                return
            T = short_ty(path)
            names = {v['discr']: v['name'] for v in adt['variants']}
            by_t = defaultdict(list)
            for v, b in t[2]:
                by_t[b].append(names.get(v))
            listed = [n for ns in by_t.values() for n in ns]
            for b, ns in by_t.items():
                if len(ns) == 1 and ns[0]:
                    add[b].append(norm_cmp('eq', f'{T}::{ns[0]}', inner, ty=T))
                for w in names.values():
                    if w not in ns:
                        add[b] += ['!' + f'is({inner},{w})', '!' + norm_cmp('eq', f'{T}::{w}', inner, ty=T)]
            oth = t[3]
            for w in listed:
                if w:
                    add[oth] += ['!' + f'is({inner},{w})', '!' + norm_cmp('eq', f'{T}::{w}', inner, ty=T)]
        elif t[4] == 'bool':
            self._alias_bool_eq(t, term, add)
        if t[4] == 'bool':
            # a TOTAL order (std Ord types, local types with `impl Ord`): !(a <= b) is b < a and !(a < b) is b <= a - label the edge
            # with both forms (a merely partial order such as SerialNumber keeps its explicit negation)
            m2 = re.match(r'^(!?)(lt|le):(\w+)\((.*)\)$', term)
            if m2 and self.prog.is_total_order(m2.group(3)):
                args = split_args(m2.group(4))
                if len(args) == 2:
                    a_, b_ = args
                    op_, T = m2.group(2), m2.group(3)
                    dual = ('lt' if op_ == 'le' else 'le') + f':{T}({b_},{a_})'     # equivalent to the NEGATION of op(a,b)
                    pos_true = not m2.group(1)
                    edges = [(v, b) for v, b in t[2]]
                    if len(t[2]) == 1:
                        edges.append((1 - t[2][0][0], t[3]))
                    for v, b in edges:
                        holds = (v != 0) == pos_true      # does op(a,b) hold on this edge?
                        add[b].append(('!' + dual) if holds else dual)
        for b, ps in add.items():
            for p_ in ps:
                if p_ not in out[b]:
                    out[b].append(p_)

    def _alias_bool_eq(self, t, term, add):
        m = re.match(r'^(!?)eq:(\w+)\((.*)\)$', term)
        if not m:
            return
        T = m.group(2)
        adt = self.prog.adt_by_short(T)
        if not adt or adt.get('kind') != 'enum' or len(adt['variants']) > 12 or any(v.get('fields') for v in adt['variants']):
            return
        args = split_args(m.group(3))
        if len(args) != 2:
            return
        vn = {v['name'] for v in adt['variants']}
        cons = [a for a in args if a.startswith(T + '::') and a[len(T) + 2:] in vn]
        if len(cons) != 1:
            return
        V = cons[0][len(T) + 2:]
        other = args[0] if args[1] == cons[0] else args[1]
        pos_true = not m.group(1)
        for v, b in t[2]:
            holds = (v != 0) == pos_true      # does `x == T::V` hold on this edge?
            self._alias_eq(add[b], other, T, V, vn, holds)
        if len(t[2]) == 1:
            v = t[2][0][0]
            holds = (v == 0) == pos_true
            self._alias_eq(add[t[3]], other, T, V, vn, holds)

    @staticmethod
    def _alias_eq(lst, other, T, V, vn, holds):
        if holds:
            lst.append(f'is({other},{V})')
            for w in vn:
                if w != V:
                    lst += [f'!is({other},{w})', '!' + norm_cmp('eq', f'{T}::{w}', other, ty=T)]
        else:
            lst.append(f'!is({other},{V})')
            rest = [w for w in vn if w != V]
            if len(rest) == 1:
                lst += [f'is({other},{rest[0]})', norm_cmp('eq', f'{T}::{rest[0]}', other, ty=T)]

    def _discr_adt(self, op):
        # find the discr rvalue that defines the switch operand
        if op[0] not in ('c', 'm') or not isinstance(op[1], int):
            return None
        for d in self.defs().get(op[1], []):
            if d[2] == 'assign' and d[3][0] == 'discr':
                return self.prog.adts.get(d[3][2])
        return None


def variant_prop(inner, nm):
    if inner.startswith('try(') and nm in ('Continue', 'Break'):
        x = inner[4:-1]
        return f'ok({x})' if nm == 'Continue' else f'!ok({x})'
    if nm in ('Ok', 'Some'):
        return f'ok({inner})'
    if nm in ('Err', 'None'):
        return f'!ok({inner})'
    return f'is({inner},{nm})'


def negate(t):
    if t.startswith('!'):
        return t[1:]
    if t == 'true':
        return 'false'
    if t == 'false':
        return 'true'
    # primitive comparisons have exact complements
    m = re.match(r'^(lt|le)\((.*)\)$', t)
    if m:
        parts = split_args(m.group(2))
        if len(parts) == 2:
            return ('le' if m.group(1) == 'lt' else 'lt') + f'({parts[1]},{parts[0]})'
    return '!' + t


def balanced(s):
    d = 0
    for ch in s:
        if ch in '([{':
            d += 1
        elif ch in ')]}':
            d -= 1
            if d < 0:
                return False
    return d == 0


def split_args(s):
    out, depth, cur = [], 0, ''
    for ch in s:
        if ch in '([{':
            depth += 1
        elif ch in ')]}':
            depth -= 1
        if ch == ',' and depth == 0:
            out.append(cur)
            cur = ''
        else:
            cur += ch
    out.append(cur)
    return out


def norm_cmp(op, a, b, prim=False, ty=None):
    """normal form: lt/le/eq, with gt/ge flipped and ne negated; eq operands sorted.
    Non-primitive orders keep a :Type tag and an explicit negation (PartialOrd is partial)."""
    tag = '' if prim or not ty else ':' + ty
    if op == 'gt':
        op, a, b = 'lt', b, a
    elif op == 'ge':
        op, a, b = 'le', b, a
    neg = False
    if op == 'ne':
        op, neg = 'eq', True
    if op == 'eq' and b < a:
        a, b = b, a
    r = f'{op}{tag}({a},{b})'
    return '!' + r if neg else r


_LEAF = re.compile(r'(?<![\w.@:#])(\^*)(arg\d+\b|var\(\w+\)|rec\(_\d+\)|cap\d+\b)')


def lift_capture(t):
    """a value of the enclosing body seen from inside a closure: one more `^` on every leaf that names a
    parameter / local of the enclosing body, so that `^f(arg1)` and `f(^arg1)` - the same value, computed
    outside or inside the closure - render alike"""
    r = _LEAF.sub(lambda m: '^' + m.group(1) + m.group(2), t)
    return r if r != t else '^' + t


# ------------------------------------------------------------------ program
class Program:
    def __init__(self, crates, pins=None):
        self.crates = crates
        if pins is None:
            pp = os.path.join(os.path.dirname(os.path.dirname(os.path.abspath(__file__))), 'rules', 'closure_pins.json')
            pins = json.load(open(pp)) if os.path.exists(pp) else {}
        self.pins = pins
        self.fns = {}
        self.adts = {}
        self.impls = []
        self.raw2norm = {}
        self.stats = {'bodies': 0, 'calls': 0, 'resolved': 0, 'asserts': 0}
        CLOSURE_RENAME.clear()
        self.closure_rename = closure_roles(crates, self.pins)
        self.activate()
        for cname, doc in crates.items():
            for p, a in doc['adts'].items():
                if p not in self.adts or a.get('local'):
                    self.adts[p] = a
            for im in doc['impls']:
                im = dict(im, crate=cname)
                self.impls.append(im)
            for rawp, meta in doc['fns'].items():
                p = strip_generics(rawp)
                if p in self.fns:
                    n = 2
                    while f'{p}#{n}' in self.fns:
                        n += 1
                    p = f'{p}#{n}'
                self.raw2norm[rawp] = p
                if meta['kind'] == 'Closure':
                    meta['parent_fn'] = p.rsplit('::{closure', 1)[0] if '::{closure' in p else strip_generics(meta.get('parent'))
                self.fns[p] = Fn(p, meta, cname, self)
            self.stats['bodies'] += doc['n_bodies']
            self.stats['calls'] += doc['n_calls']
            self.stats['resolved'] += doc['n_resolved']
            self.stats['asserts'] += doc['n_asserts']
        self._closure_sites = None
        self._callers = None
        self.inline_stats = {}
        # parameter order of private functions (rules/known_params.json, tools/gen_known_fns.py): rule terms name parameters by
        # position (`arg2`); when a non-pub function still has the reviewed parameter NAMES in another ORDER, its parameters (and the
        # arguments at its call sites) are rendered in the reviewed order.  Never active on the reviewed tree.
        self.perm_fns = 0
        try:
            kp = os.path.join(os.path.dirname(os.path.dirname(os.path.abspath(__file__))), 'rules', 'known_params.json')
            known_params = json.load(open(kp)) if os.environ.get('VERIF_NO_INLINE') != '1' and os.path.exists(kp) else {}
        except Exception:
            known_params = {}
        for p, f in self.fns.items():
            base = known_params.get(p)
            if not base or f.meta.get('vis') == 'pub' or len(base) != f.argc:
                continue
            cur = [f.varname.get(i) for i in range(1, f.argc + 1)]
            if None in cur or cur == base or len(set(cur)) != len(cur) or sorted(cur) != sorted(base):
                continue
            f.arg_perm = {i + 1: base.index(nm) + 1 for i, nm in enumerate(cur)}
            self.perm_fns += 1
        if os.environ.get('VERIF_NO_INLINE') != '1':
            # transparent helpers (engine/inline.py): expand small private functions that no rule mentions at their call sites
            import inline
            import loops
            import api
            rules_dir = os.path.join(os.path.dirname(os.path.dirname(os.path.abspath(__file__))), 'rules')
            self.inline_stats = inline.inline_program(self, rules_dir, api.shorten, strip_generics, loops.has_loops, Fn)
            self._closure_sites = None
            self._callers = None

    STD_TOTAL = {'Instant', 'Duration', 'SystemTime', 'String', 'str', 'char', 'IpAddr', 'Ipv4Addr', 'Ipv6Addr', 'SocketAddr', 'Ordering',
                 'u8', 'u16', 'u32', 'u64', 'u128', 'usize', 'i8', 'i16', 'i32', 'i64', 'i128', 'isize', 'bool'}

    def is_total_order(self, short):
        if short in self.STD_TOTAL:
            return True
        if not hasattr(self, '_ord_types'):
            self._ord_types = {short_ty(im.get('self') or '') for im in self.impls if str(im.get('trait') or '').endswith('cmp::Ord')}
        return short in self._ord_types

    def adt_by_short(self, short):
        if not hasattr(self, '_adt_short'):
            m = {}
            for p_, a in self.adts.items():
                k = short_ty(p_)
                m[k] = None if k in m and m[k] is not a else a
            self._adt_short = m
        return self._adt_short.get(short)

    def activate(self):
        """make this program's closure role names the ones strip_generics applies"""
        CLOSURE_RENAME.clear()
        CLOSURE_RENAME.update(self.closure_rename)

    def fn(self, path):
        return self.fns.get(path)

    def find(self, regex):
        r = re.compile(regex)
        return [f for p, f in self.fns.items() if r.search(p)]

    def closure_site(self, cpath):
        """(parent Fn, capture operands) of the aggregate that builds closure cpath"""
        if self._closure_sites is None:
            allsites = {}
            for f in self.fns.values():
                for b in f.blocks:
                    for st in b['s']:
                        if st[0] == '=' and st[2][0] in ('closure', 'coroutine'):
                            allsites.setdefault(strip_generics(st[2][1]), []).append((f, st[2][2]))
            self._closure_sites = {}
            for cp, sites in allsites.items():
                # a closure written inside a transparent helper is also built by the (single) function the helper was expanded
                # into: its captures are then read in that caller's frame, so that the helper's parameters become the caller's values
                own = (self.fns[cp].meta.get('parent_fn') if cp in self.fns else None)
                foreign = [x for x in sites if x[0].path != own and not (own and x[0].path.startswith(own + '::{closure'))]
                fp = {x[0].path for x in foreign}
                self._closure_sites[cp] = foreign[0] if len(fp) == 1 else sites[0]
        return self._closure_sites.get(cpath)

    # call graph ---------------------------------------------------------
    def calls_of(self, f):
        """yield (bb, callee-dict, term) for each call terminator on normal blocks"""
        for bi, b in enumerate(f.blocks):
            if b['cleanup']:
                continue
            t = b['t']
            if t[0] == 'call':
                yield bi, t[1], t

    def impl_methods(self, trait, method):
        out = []
        for im in self.impls:
            if im['trait'] == trait and method in im['methods']:
                mp = im['methods'][method]
                out.append(self.raw2norm.get(mp, strip_generics(mp)))
        return out

    def callee_targets(self, f, c):
        """set of local fn paths a call may enter (resolved, else CHA over impls)"""
        if 'op' in c:
            return []
        if c.get('res'):
            r = self.raw2norm.get(c['res'], strip_generics(c['res']))
            if r in self.fns:
                return [r]
            return []
        d = self.raw2norm.get(c['def'], strip_generics(c['def']))
        if d in self.fns:
            return [d]
        if c.get('trait'):
            m = d.rsplit('::', 1)[-1]
            return [p for p in self.impl_methods(c['trait'], m) if p in self.fns]
        return []


# ------------------------------------------------------------------ value-sensitive reachability
class Reach:
    """Reachability over (block, known small constants of flag locals).  An edge filter can
    remove edges (the cut set).  This threads `matches!`, `&&`-as-value, Option temporaries."""

    def __init__(self, fn):
        self.fn = fn
        self.flags = self._flag_locals()
        self.multi = self._multi_switched()
        self.flags |= self.multi

    def _multi_switched(self):
        """bool locals tested by two or more switches (directly or through a copy temp): the value
        learnt at the first test is remembered, so `if a && x {..} if !a {..}` is not conflated"""
        fn = self.fn
        defs = fn.defs()
        cnt = defaultdict(int)
        for b in fn.blocks:
            t = b['t']
            if b['cleanup'] or t[0] != 'switch' or t[4] != 'bool' or t[1][0] not in ('c', 'm') or not isinstance(t[1][1], int):
                continue
            l = t[1][1]
            src = l
            ds = defs.get(l, [])
            if len(ds) == 1 and ds[0][2] == 'assign' and ds[0][3][0] == 'use' and ds[0][3][1][0] in ('c', 'm') and isinstance(ds[0][3][1][1], int):
                src = ds[0][3][1][1]
            cnt[src] += 1
        return {l for l, n in cnt.items() if n >= 2 and l > fn.argc}

    def _flag_locals(self):
        fn = self.fn
        sw = set()
        for b in fn.blocks:
            t = b['t']
            if t[0] == 'switch' and t[1][0] in ('c', 'm') and isinstance(t[1][1], int):
                sw.add(t[1][1])
        flags = set()
        defs = fn.defs()
        # a switched local whose defs are constants / variant aggregates / discr of a flag / copies of flags
        changed = True
        cand = set(sw)
        # include sources of discr() and copies (transitively)
        work = list(sw)
        while work:
            l = work.pop()
            for d in defs.get(l, []):
                if d[2] == 'assign':
                    rv = d[3]
                    src = None
                    if rv[0] == 'discr' and isinstance(rv[1], int):
                        src = rv[1]
                    if rv[0] == 'use' and rv[1][0] in ('c', 'm') and isinstance(rv[1][1], int):
                        src = rv[1][1]
                    if rv[0] == 'un' and rv[1] == 'Not' and rv[2][0] in ('c', 'm') and isinstance(rv[2][1], int):
                        src = rv[2][1]
                    if src is not None and src not in cand:
                        cand.add(src)
                        work.append(src)
                elif d[2] == 'call' and self._is_branch(d[3]):
                    a0 = d[3][2][0]
                    if a0[0] in ('c', 'm') and isinstance(a0[1], int) and a0[1] not in cand:
                        cand.add(a0[1])
                        work.append(a0[1])
        for l in cand:
            ds = defs.get(l, [])
            if not ds or l <= fn.argc:
                continue
            ok_any = False
            for d in ds:
                if d[2] == 'assign':
                    rv = d[3]
                    if rv[0] == 'use' and rv[1][0] == 'k' and 'int' in rv[1][1]:
                        ok_any = True
                    elif rv[0] == 'adt' and fn.prog.adts.get(rv[1], {}).get('kind') == 'enum':
                        ok_any = True
                    elif rv[0] == 'discr' and isinstance(rv[1], int) and rv[1] in cand:
                        ok_any = True
                    elif rv[0] == 'use' and rv[1][0] in ('c', 'm') and isinstance(rv[1][1], int) and rv[1][1] in cand:
                        ok_any = True
                elif d[2] == 'call' and (self._is_branch(d[3]) or self._is_from_residual(d[3])):
                    ok_any = True
            if ok_any:
                flags.add(l)
        return flags

    @staticmethod
    def _callee(t):
        c = t[1]
        return '' if 'op' in c else (c.get('res') or c.get('def') or '')

    def _is_branch(self, t):
        return self._callee(t).endswith('Try>::branch') or self._callee(t).endswith('Try::branch')

    def _is_from_residual(self, t):
        n = self._callee(t)
        return n.endswith('FromResidual>::from_residual') or n.endswith('FromResidual::from_residual') or 'FromResidual<' in n and n.endswith('::from_residual')

    def _carrier(self, l):
        ty = self.fn.locals[l] if l < len(self.fn.locals) else ''
        ty = ty.replace('&', '').strip()
        if ty.startswith('core::result::Result') or ty.startswith('std::result::Result'):
            return 'result'
        if ty.startswith('core::option::Option') or ty.startswith('std::option::Option'):
            return 'option'
        if ty.startswith('core::ops::control_flow::ControlFlow') or ty.startswith('core::ops::ControlFlow'):
            return 'cf'
        return None

    def _exec_block(self, bb, val):
        """apply the block's statements to the valuation (dict local -> value)"""
        fn = self.fn
        b = fn.blocks[bb]
        val = dict(val)
        for st in b['s']:
            if st[0] == '=':
                pl = st[1]
                l = pl if isinstance(pl, int) else pl[0]
                if l not in self.flags and not (st[2][0] == 'use' and st[2][1][0] in ('c', 'm') and isinstance(st[2][1][1], int) and st[2][1][1] in self.multi):
                    continue
                if not isinstance(pl, int):
                    val.pop(l, None)
                    continue
                rv = st[2]
                v = None
                if rv[0] == 'use' and rv[1][0] == 'k' and 'int' in rv[1][1]:
                    v = ('i', rv[1][1]['int'])
                elif rv[0] == 'adt':
                    adt = fn.prog.adts.get(rv[1])
                    if adt and adt['kind'] == 'enum':
                        for vv in adt['variants']:
                            if vv['name'] == rv[2]:
                                v = ('i', vv['discr'])
                elif rv[0] == 'discr' and isinstance(rv[1], int):
                    v = val.get(rv[1])
                elif rv[0] == 'use' and rv[1][0] in ('c', 'm') and isinstance(rv[1][1], int):
                    v = val.get(rv[1][1])
                    if v is None and rv[1][1] in self.multi:
                        v = ('a', rv[1][1])
                elif rv[0] == 'un' and rv[1] == 'Not' and rv[2][0] in ('c', 'm') and isinstance(rv[2][1], int):
                    # `!flag` of a flag whose value is known on this path (`a && !(b && c)` lowers to nested flag merges)
                    w = val.get(rv[2][1])
                    if w is not None and w[0] == 'i' and w[1] in (0, 1):
                        v = ('i', 1 - w[1])
                if v is None:
                    val.pop(l, None)
                else:
                    val[l] = v
            elif st[0] == 'setdiscr':
                pl = st[1]
                l = pl if isinstance(pl, int) else pl[0]
                val.pop(l, None)
        t = b['t']
        if t[0] == 'call':
            pl = t[3]
            l = pl if isinstance(pl, int) else pl[0]
            val.pop(l, None)
            # a &mut borrow of a flag passed to a call could change it: conservatively forget
            if isinstance(pl, int) and pl in self.flags:
                # `?` on a value whose variant is known on this path (a Result built by an expanded helper): Try::branch of Ok / Some
                # is Continue, of Err / None is Break; FromResidual::from_residual builds the Err / None of its own carrier
                if self._is_branch(t) and t[2] and t[2][0][0] in ('c', 'm') and isinstance(t[2][0][1], int):
                    w = val.get(t[2][0][1])
                    car = self._carrier(t[2][0][1])
                    if w is not None and w[0] == 'i' and car in ('result', 'option'):
                        # Result: Ok=0 -> Continue=0, Err=1 -> Break=1;  Option: None=0 -> Break=1, Some=1 -> Continue=0
                        val[pl] = ('i', w[1] if car == 'result' else 1 - w[1])
                elif self._is_from_residual(t):
                    car = self._carrier(pl)
                    if car == 'result':
                        val[pl] = ('i', 1)
                    elif car == 'option':
                        val[pl] = ('i', 0)
        return val

    def _refine(self, l, val):
        """(raw phi term, raw term of the single non-constant definition) of the flag local behind switch operand `l`, or None"""
        if not hasattr(self, '_refine_cache'):
            self._refine_cache = {}
        fn = self.fn
        defs = fn.defs()
        src = l
        for _ in range(5):
            ds = defs.get(src, [])
            if len(ds) == 1 and ds[0][2] == 'assign' and ds[0][3][0] == 'use' and ds[0][3][1][0] in ('c', 'm') and isinstance(ds[0][3][1][1], int):
                src = ds[0][3][1][1]
            elif len(ds) == 1 and ds[0][2] == 'assign' and ds[0][3][0] == 'discr' and isinstance(ds[0][3][1], int):
                src = ds[0][3][1]          # switch on the discriminant of ...
            elif (len(ds) == 1 and ds[0][2] == 'call' and self._is_branch(ds[0][3]) and ds[0][3][2] and ds[0][3][2][0][0] in ('c', 'm')
                  and isinstance(ds[0][3][2][0][1], int)):
                src = ds[0][3][2][0][1]    # ... Try::branch(flag): `?` on a merged Result / Option
            else:
                break
        if src in val or src not in self.flags:
            return None
        if src in self._refine_cache:
            return self._refine_cache[src]
        out = None
        ds = defs.get(src, [])
        consts = [d for d in ds if (d[2] == 'assign' and d[3][0] == 'use' and d[3][1][0] == 'k') or (d[2] == 'call' and self._is_from_residual(d[3]))]
        others = [d for d in ds if d not in consts]
        if consts and len(others) == 1:
            try:
                whole = fn.term_local(src)
                alt = fn.term_def(others[0], 0)
                o = others[0]
                if o[2] == 'assign' and o[3][0] == 'un' and o[3][1] == 'Not' and o[3][2][0] in ('c', 'm') and isinstance(o[3][2][1], int):
                    # the computed value is the negation of another merged flag that holds no known constant on this path either
                    inner = self._refine(o[3][2][1], val)
                    if inner:
                        alt2 = negate(inner[1])
                        if whole.startswith('phi(') and alt in whole:
                            out = (whole, alt2)
                if out is None and whole.startswith('phi(') and alt and alt in whole and alt != whole:
                    out = (whole, alt)
                if out is None and whole.startswith('phi(') and whole.endswith(')'):
                    # the two renderings can differ in depth (rec(..) cut-offs): take the alternative of the merge that is not one of
                    # the constant / from_residual definitions
                    alts, depth_, cur_ = [], 0, ''
                    for ch in whole[4:-1]:
                        if ch in '([':
                            depth_ += 1
                        elif ch in ')]':
                            depth_ -= 1
                        if ch == '|' and depth_ == 0:
                            alts.append(cur_)
                            cur_ = ''
                        else:
                            cur_ += ch
                    alts.append(cur_)
                    cterms = set()
                    for c_ in consts:
                        try:
                            cterms.add(fn.term_def(c_, 0))
                        except Exception:
                            pass
                    rest = [a_ for a_ in alts if a_ not in cterms and 'from_residual(' not in a_.split('(', 2)[0] + '(' and not re.match(r'^<[^()]*FromResidual<[^()]*>>::from_residual\(', a_)]
                    if len(alts) == len(consts) + 1 and len(rest) == 1:
                        out = (whole, rest[0])
            except Exception:
                out = None
        self._refine_cache[src] = out
        return out

    def run(self, edge_ok=None, start=0, start_val=None, stop_at=None):
        """BFS; returns dict bb -> set of frozenset valuations reached at block ENTRY.
        edge_ok(bb, succ, props) -> False removes the edge."""
        fn = self.fn
        seen = defaultdict(set)
        init = frozenset((start_val or {}).items())
        dq = deque([(start, init)])
        seen[start].add(init)
        steps = 0
        while dq:
            bb, fv = dq.popleft()
            steps += 1
            if steps > 200000:
                raise RuntimeError('reachability blow-up in ' + fn.path)
            if stop_at is not None and bb in stop_at:
                continue
            val = self._exec_block(bb, dict(fv))
            t = fn.blocks[bb]['t']
            succs = fn.succs(bb)
            learn = None
            if t[0] == 'switch' and t[1][0] in ('c', 'm') and isinstance(t[1][1], int) and t[1][1] in val:
                kind, v = val[t[1][1]]
                if kind == 'a':
                    learn = v          # branch both ways, remembering the tested local's value
                    val.pop(t[1][1], None)
                else:
                    tgt = t[3]
                    for av, ab in t[2]:
                        if av == v:
                            tgt = ab
                    succs = [tgt]
                    if t[1][0] == 'm':
                        val.pop(t[1][1], None)
            elif t[0] == 'switch' and t[4] == 'bool' and t[1][0] in ('c', 'm') and isinstance(t[1][1], int) and t[1][1] in self.multi:
                learn = t[1][1]
            props = fn.edge_props(bb) if t[0] == 'switch' else {}
            if props and edge_ok is not None and len(succs) > 1 and t[1][0] in ('c', 'm') and isinstance(t[1][1], int) and t[1][1] not in val:
                # the tested flag is a merge of constants and ONE computed value, and on this path it holds no known constant:
                # it holds the computed value - state the edge propositions about that value instead of about phi(const|value)
                ref = self._refine(t[1][1], val)
                if ref:
                    def _ref(p_):
                        if ref[0] in p_:
                            return p_.replace(ref[0], ref[1])
                        # the same merge rendered at another depth inside `ok(..)` (a `?` on the flag itself)
                        m_ = re.match(r'^(!?)ok\((phi\(.*\))\)$', p_, re.S)
                        if m_ and balanced(m_.group(2)[4:-1]):
                            return f'{m_.group(1)}ok({ref[1]})'
                        return None
                    def _nn(q_):
                        # substituting a negated value under a negation leaves `!!v`: boolean double negation, same proposition
                        while q_ and q_.startswith('!!'):
                            q_ = q_[2:]
                        return q_
                    props = {s_: list(ps_) + [q_ for q_ in (_nn(_ref(p_)) for p_ in ps_) if q_] for s_, ps_ in props.items()}
            for s in succs:
                if fn.blocks[s]['cleanup']:
                    continue
                if edge_ok is not None and not edge_ok(bb, s, props.get(s, [])):
                    continue
                if learn is not None:
                    taken = None
                    for av, ab in t[2]:
                        if ab == s:
                            taken = av
                    if taken is None and len(t[2]) == 1 and t[4] == 'bool':
                        taken = 1 - t[2][0][0]
                    val = dict(val)
                    if taken is None:
                        val.pop(learn, None)
                    else:
                        val[learn] = ('i', taken)
                # keep the valuation small: only flags that are still live matter; cheap approximation
                nv = frozenset(val.items())
                if nv not in seen[s]:
                    if len(seen[s]) > 64:
                        nv = frozenset()
                        if nv in seen[s]:
                            continue
                    seen[s].add(nv)
                    dq.append((s, nv))
        return seen


def guarded(fn, site_bb, pattern, reach=None, extra_props=None):
    """True iff removing every edge that establishes a proposition matching `pattern`
    disconnects site_bb from the entry (cut-set definition of 'guard holds at site')."""
    rx = re.compile(pattern) if isinstance(pattern, str) else pattern
    if extra_props and any(rx.search(p) for p in extra_props):
        return True
    reach = reach or Reach(fn)

    def edge_ok(bb, s, props):
        return not any(rx.search(p) for p in props)
    seen = reach.run(edge_ok=edge_ok)
    return site_bb not in seen


def path_props(fn, site_bb, reach=None):
    """propositions that hold on EVERY normal path to site_bb (each is a singleton cut).
    Used for reporting and for evidence samples."""
    reach = reach or Reach(fn)
    base = reach.run()
    if site_bb not in base:
        return None
    cands = set()
    for bb in base:
        t = fn.blocks[bb]['t']
        if t[0] == 'switch':
            for s, ps in fn.edge_props(bb).items():
                for p in ps:
                    cands.add(p)
    out = []
    for p in sorted(cands):
        def edge_ok(bb, s, props, p=p):
            return p not in props
        if site_bb not in reach.run(edge_ok=edge_ok):
            out.append(p)
    return out

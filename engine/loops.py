"""LOOP family: every cycle of a function's (value-sensitive) control-flow graph passes a block that makes
progress (consumes input / advances a finite iterator)."""
from collections import defaultdict, deque
import core


def product_graph(cx, fn, limit=60000):
    """explore (bb, valuation) states reachable from the entry; returns (nodes, edges)"""
    R = cx.reach(fn)
    start = (0, frozenset())
    nodes = {start}
    edges = defaultdict(set)
    dq = deque([start])
    while dq:
        bb, fv = dq.popleft()
        if len(nodes) > limit:
            raise RuntimeError('product graph blow-up in ' + fn.path)
        val = R._exec_block(bb, dict(fv))
        t = fn.blocks[bb]['t']
        succs = fn.succs(bb)
        learn = None
        if t[0] == 'switch' and t[1][0] in ('c', 'm') and isinstance(t[1][1], int) and t[1][1] in val:
            kind, v = val[t[1][1]]
            if kind == 'a':
                learn = v
                val.pop(t[1][1], None)
            else:
                tgt = t[3]
                for av, ab in t[2]:
                    if av == v:
                        tgt = ab
                succs = [tgt]
                if t[1][0] == 'm':
                    val.pop(t[1][1], None)
        for s in succs:
            if fn.blocks[s]['cleanup']:
                continue
            v2 = val
            if learn is not None:
                taken = None
                for av, ab in t[2]:
                    if ab == s:
                        taken = av
                if taken is None and len(t[2]) == 1 and t[4] == 'bool':
                    taken = 1 - t[2][0][0]
                v2 = dict(val)
                if taken is None:
                    v2.pop(learn, None)
                else:
                    v2[learn] = ('i', taken)
            st = (s, frozenset(v2.items()))
            edges[(bb, fv)].add(st)
            if st not in nodes:
                nodes.add(st)
                dq.append(st)
    return nodes, edges


def success_edges(cx, fn, call_blocks, max_steps=8):
    """A fallible reader (Result / Option) consumes input only when it succeeds.  For every call block in `call_blocks` find the
    branch that tests the call's result (directly, or through `?` / map_err / Restrict adaptors: the first branching block on the
    straight-line continuation whose edge propositions are ok(T) / !ok(T) with T containing the call's own term) and return
    ({(branch_bb, ok_succ)}, {call blocks whose result test was not found}).  The caller treats only the success EDGE as
    progress; an unresolved call keeps its block (the result is not branched on nearby: `?`-less value use)."""
    import re
    from api import shorten
    edges, unresolved = set(), set()
    for cb in call_blocks:
        t = fn.blocks[cb]['t']
        try:
            ct = shorten(fn.term_call(t, 0))
        except Exception:
            unresolved.add(cb)
            continue
        head = ct.split('(')[0]
        bb = t[4] if len(t) > 4 and isinstance(t[4], int) else None
        succs = [x for x in fn.succs(cb) if not fn.blocks[x]['cleanup']]
        bb = succs[0] if len(succs) == 1 else None
        found = False
        for _ in range(max_steps):
            if bb is None:
                break
            ss = [x for x in fn.succs(bb) if not fn.blocks[x]['cleanup']]
            if len(ss) >= 2:
                ep = fn.edge_props(bb) or {}
                oks = [x for x in ss if any(re.match(r'^(ok|is)\(', shorten(p_)) and head in shorten(p_) for p_ in ep.get(x, []))]
                ers = [x for x in ss if any(re.match(r'^!(ok|is)\(', shorten(p_)) and head in shorten(p_) for p_ in ep.get(x, []))]
                if len(oks) == 1 and ers:
                    edges.add((bb, oks[0]))
                    found = True
                break
            bb = ss[0] if len(ss) == 1 else None
        if not found:
            unresolved.add(cb)
    return edges, unresolved


def cycles_without(cx, fn, progress_blocks, progress_edges=()):
    """blocks lying on a cycle of the product graph that avoids every progress block (and every progress edge)"""
    nodes, edges0 = product_graph(cx, fn)
    keep = {n for n in nodes if n[0] not in progress_blocks}
    pe = set(progress_edges)
    if pe:
        edges = {k: {w for w in v if (k[0], w[0]) not in pe} for k, v in edges0.items()}
    else:
        edges = edges0
    # iterative Tarjan SCC on the restricted graph
    index = {}
    low = {}
    onstack = set()
    stack = []
    out = set()
    counter = [0]
    for root in keep:
        if root in index:
            continue
        work = [(root, iter([s for s in edges.get(root, ()) if s in keep]))]
        index[root] = low[root] = counter[0]
        counter[0] += 1
        stack.append(root)
        onstack.add(root)
        while work:
            v, it = work[-1]
            adv = False
            for w in it:
                if w not in index:
                    index[w] = low[w] = counter[0]
                    counter[0] += 1
                    stack.append(w)
                    onstack.add(w)
                    work.append((w, iter([s for s in edges.get(w, ()) if s in keep])))
                    adv = True
                    break
                elif w in onstack:
                    low[v] = min(low[v], index[w])
            if adv:
                continue
            work.pop()
            if work:
                u = work[-1][0]
                low[u] = min(low[u], low[v])
            if low[v] == index[v]:
                comp = []
                while True:
                    w = stack.pop()
                    onstack.discard(w)
                    comp.append(w)
                    if w == v:
                        break
                if len(comp) > 1 or v in edges.get(v, ()):
                    out |= {n[0] for n in comp}
    return out


def has_loops(fn):
    """cheap: does the plain CFG have a back edge?"""
    color = {}
    st = [(0, iter(fn.succs(0)))]
    color[0] = 1
    while st:
        v, it = st[-1]
        adv = False
        for w in it:
            if fn.blocks[w]['cleanup']:
                continue
            if color.get(w) == 1:
                return True
            if w not in color:
                color[w] = 1
                st.append((w, iter(fn.succs(w))))
                adv = True
                break
        if not adv:
            color[v] = 2
            st.pop()
    return False

"""Transparent helpers: call-site expansion of small private functions on the extracted MIR.

"Extract a few lines into a private helper" (or the reverse) is the most common behaviour-preserving edit of a decision procedure,
and it moves guards, stores and return forms out of the function a rule is anchored on.  Before any rule runs, every call from a
function of the analysed crates to a TRANSPARENT helper is replaced by the helper's body (classic inlining on the fact JSON: fresh
locals, copied blocks, parameters assigned from the arguments, `return` replaced by an assignment to the call's destination and a
jump to its target).  A helper is transparent when it is
  * a plain fn / inherent method with a body in the facts, not `pub`, not async, not a closure, not a test,
  * small (at most MAX_BLOCKS normal blocks),
  * NEW: its path is not in rules/known_fns.json, the list of function paths that existed when the rule files were last reviewed
    (tools/gen_known_fns.py).  The rules were written against those function boundaries (variant tables, who-may-call tables,
    recursion edges and census exemptions name them), so an existing function keeps its identity; a helper introduced by a later
    edit has no rule of its own and is looked through.  The list only decides transparency, never a verdict; and
  * not mentioned by any rule file.
Expansion is repeated DEPTH times (helpers calling helpers); recursion is never expanded.  Guards, paths, writers and terms are then
computed on the expanded body, so a guard that moved into `fn is_from_queried_server(..) -> bool` is still a guard of the caller."""
import copy
import glob
import os
import re

MAX_BLOCKS = 40
DEPTH = 2


def _place(p, lm):
    """lm(local) -> int, or a place (int | list) substituted for the local; lm.deref.get(local) -> place substituted for (*local)"""
    if isinstance(p, int):
        return lm(p)
    rest = p[1:]
    der = getattr(lm, 'deref', {})
    if p[0] in der and rest and rest[0] == '*':
        base = der[p[0]]
        rest = rest[1:]
    else:
        base = lm(p[0])
    out = list(base) if isinstance(base, list) else [base]
    if not rest:
        return out if len(out) > 1 else out[0]
    for e in rest:
        if isinstance(e, str) and e.startswith('[_'):
            m = re.fullmatch(r'\[_(\d+)\]', e)
            out.append(f'[_{lm(int(m.group(1)))}]' if m else e)
        else:
            out.append(e)
    return out


def _operand(o, lm):
    if o and o[0] in ('c', 'm'):
        return [o[0], _place(o[1], lm)]
    return o


def _rvalue(rv, lm):
    k = rv[0]
    if k == 'use':
        return ['use', _operand(rv[1], lm)]
    if k == 'ref':
        return ['ref', _place(rv[1], lm), rv[2]]
    if k == 'raw':
        return ['raw', _place(rv[1], lm)]
    if k == 'bin':
        return ['bin', rv[1], _operand(rv[2], lm), _operand(rv[3], lm)]
    if k == 'un':
        return ['un', rv[1], _operand(rv[2], lm)]
    if k == 'cast':
        return ['cast', rv[1], _operand(rv[2], lm), rv[3]]
    if k == 'discr':
        return ['discr', _place(rv[1], lm)] + rv[2:]
    if k == 'adt':
        return ['adt', rv[1], rv[2], [_operand(o, lm) for o in rv[3]]] + rv[4:]
    if k in ('tuple', 'array', 'rawptr'):
        return [k, [_operand(o, lm) for o in rv[1]]]
    if k in ('closure', 'coroutine'):
        return [k, rv[1], [_operand(o, lm) for o in rv[2]]]
    if k == 'repeat':
        return ['repeat', _operand(rv[1], lm), rv[2]]
    raise ValueError('rvalue ' + str(k))


def _stmt(st, lm):
    k = st[0]
    if k == '=':
        return ['=', _place(st[1], lm), _rvalue(st[2], lm)] + st[3:]
    if k == 'setdiscr':
        return ['setdiscr', _place(st[1], lm)] + st[2:]
    raise ValueError('stmt ' + str(k))


def _term(t, lm, bm):
    k = t[0]
    ob = lambda b: None if b is None else bm(b)
    if k == 'goto':
        return ['goto', bm(t[1])]
    if k == 'switch':
        return ['switch', _operand(t[1], lm), [[v, bm(b)] for v, b in t[2]], bm(t[3]), t[4]]
    if k == 'call':
        c = t[1]
        if 'op' in c:
            c = dict(c, op=_operand(c['op'], lm))
        return ['call', c, [_operand(o, lm) for o in t[2]], _place(t[3], lm), ob(t[4]), ob(t[5])] + t[6:]
    if k == 'assert':
        return ['assert', _operand(t[1], lm), t[2], t[3], [_operand(o, lm) for o in t[4]], bm(t[5]), ob(t[6])]
    if k == 'drop':
        return ['drop', _place(t[1], lm), bm(t[2]), ob(t[3])]
    if k in ('return', 'unreachable', 'resume', 'abort'):
        return [k]
    raise ValueError('terminator ' + str(k))


def refs_local(x, l):
    """does the JSON fragment mention local l as the base of a place (operand, destination, borrowed place)?"""
    n = [0]

    def lm(q):
        if q == l:
            n[0] += 1
        return q
    try:
        if isinstance(x, list) and x and x[0] in ('=', 'setdiscr'):
            _stmt(x, lm)
        elif isinstance(x, list) and x and isinstance(x[0], str):
            _term(x, lm, lambda b: b)
    except ValueError:
        return True
    return n[0] > 0


def json_count(block, l):
    n = [0]

    def lm(q):
        if q == l:
            n[0] += 1
        return q
    for st in block['s']:
        try:
            if st[0] in ('=', 'setdiscr'):
                _stmt(st, lm)
        except ValueError:
            n[0] += 9
    try:
        _term(block['t'], lm, lambda b: b)
    except ValueError:
        if block['t'][0] == 'yield':
            _operand(block['t'][1], lm)
        else:
            n[0] += 9
    return n[0]


def mentioned_names(rules_dir):
    txt = ''
    for p in glob.glob(os.path.join(rules_dir, '*.py')):
        txt += open(p).read()
    return txt.replace('\\', '')


def transparent(prog, mentioned, shorten, has_loops, known):
    out = {}
    for p, f in prog.fns.items():
        if p in known:
            continue
        m = f.meta
        if '{closure' in p or m.get('async') or m.get('kind') not in ('Fn', 'AssocFn') or m.get('vis') == 'pub' or not m.get('body'):
            continue
        if '::tests::' in p or '::test::' in p or '::promoted[' in p:
            continue
        nb = [b for b in f.blocks if not b['cleanup']]
        if len(nb) > MAX_BLOCKS:
            continue
        if any(b['t'][0] in ('yield', 'tailcall', 'asm', 'coroutine_drop') for b in f.blocks):
            continue
        sn = shorten(p + '(')[:-1]
        if sn in mentioned or sn.split('::')[-1] in ('new', 'default', 'from', 'fmt', 'clone', 'drop'):
            continue
        out[p] = f
    return out


def expand_body(body, callee_of, chain, stats):
    """one pass over `body`: returns a new body with every eligible call expanded, or None if nothing was expanded"""
    blocks = body['blocks']
    todo = []
    for bi, b in enumerate(blocks):
        t = b['t']
        if b['cleanup'] or t[0] != 'call' or t[4] is None:
            continue
        g = callee_of(t[1])
        if g is None or g.path in chain:
            continue
        gb = g.meta['body']
        if len(t[2]) != gb['argc']:
            continue
        todo.append((bi, g))
    if not todo:
        return None
    nb = copy.deepcopy(body)
    for bi, g in todo:
        gb = g.meta['body']
        base_l, base_b = len(nb['locals']), len(nb['blocks'])
        bm = lambda b_, base_b=base_b: base_b + b_
        t = nb['blocks'][bi]['t']
        sp = nb['blocks'][bi]['sp']
        dest, target, unwind = t[3], t[4], t[5]
        annot = t[6:] if len(t) > 6 else []
        # return-slot forwarding: `place = helper(..)` is lowered to `tmp = helper(..); place = move tmp` - when tmp has no other
        # use, the helper's result is written to `place` directly
        if isinstance(dest, int) and target is not None and target < len(nb['blocks']):
            tb = nb['blocks'][target]
            k_ = next((i_ for i_, st in enumerate(tb['s']) if st[0] == '=' and st[2] == ['use', ['m', dest]]), None)
            if k_ is not None:
                uses = sum(json_count(b_, dest) for b_ in nb['blocks'])
                # one use as the call destination, one as the moved operand
                if uses == 2 and not any(refs_local(st, dest) for st in tb['s'][:k_]):
                    st = tb['s'][k_]
                    annot = list(annot) + [x for x in st[3:] if isinstance(x, dict)]
                    dest = st[1]
                    tb['s'] = tb['s'][:k_] + tb['s'][k_ + 1:]
        # the callee's return place IS the call's destination (`_0 = x` in the helper becomes `dest = x`), and a parameter that
        # receives `&place` / `&mut place` of the caller is looked through: (*param).f in the helper is place.f of the caller
        deref = {}

        def ref_target(l):
            """the place a local reference points to, if the local is assigned `&place` exactly once (re-borrows followed)"""
            rd = [st for b_ in body['blocks'] if not b_['cleanup'] for st in b_['s'] if st[0] == '=' and st[1] == l]
            if len(rd) != 1 or rd[0][2][0] != 'ref' or any(b_['t'][0] == 'call' and b_['t'][3] == l for b_ in body['blocks']):
                return None
            x = rd[0][2][1]
            for _ in range(4):
                if isinstance(x, list) and len(x) >= 2 and x[1] == '*' and isinstance(x[0], int):
                    y = ref_target(x[0])
                    if y is None:
                        break
                    x = (list(y) if isinstance(y, list) else [y]) + x[2:]
                    if len(x) == 1:
                        x = x[0]
                else:
                    break
            return x
        for i, a in enumerate(t[2]):
            if a[0] in ('m', 'c') and isinstance(a[1], int):
                x = ref_target(a[1])
                if x is not None:
                    deref[i + 1] = x

        class _LM:
            pass
        def lm(l, base_l=base_l, dest=dest):
            return dest if l == 0 else base_l + l
        lm.deref = deref
        try:
            new_blocks = []
            for gj, gblk in enumerate(gb['blocks']):
                stmts = [_stmt(st, lm) for st in gblk['s'] if st[0] != 'intrinsic']
                gt = gblk['t']
                if annot:
                    # stores to the destination keep the call's who-writes annotation
                    stmts = [(st[:3] + [a for a in annot if isinstance(a, dict)] + st[3:]) if st[0] == '=' and st[1] == dest and not any(isinstance(x, dict) for x in st[3:]) else st
                             for st in stmts]
                if gt[0] == 'return':
                    nt = ['goto', target]
                elif gt[0] == 'resume':
                    nt = ['goto', unwind] if unwind is not None else ['resume']
                else:
                    nt = _term(gt, lm, bm)
                new_blocks.append({'s': stmts, 't': nt, 'sp': gblk['sp'], 'cleanup': gblk['cleanup'], 'inl': g.path})
        except ValueError:
            stats['skipped'] += 1
            continue
        nb['locals'] = nb['locals'] + list(gb['locals'])
        for name, pl in gb.get('vars', []):
            try:
                nb['vars'].append([name, _place(pl, lm)])
            except Exception:
                pass
        setup = [['=', lm(i + 1), ['use', a], sp] for i, a in enumerate(t[2])]
        nb['blocks'][bi]['s'] = nb['blocks'][bi]['s'] + setup
        nb['blocks'][bi]['t'] = ['goto', bm(0)]
        nb['blocks'].extend(new_blocks)
        stats['expanded'] += 1
    return nb


def inline_program(prog, rules_dir, shorten, strip_generics, has_loops, Fn):
    mentioned = mentioned_names(rules_dir)
    kp = os.path.join(rules_dir, 'known_fns.json')
    if not os.path.exists(kp):
        return {'transparent': 0, 'expanded': 0, 'skipped': 0, 'callers': 0, 'note': 'rules/known_fns.json missing: no helper is transparent'}
    import json
    known = set(json.load(open(kp)))
    tr = transparent(prog, mentioned, shorten, has_loops, known)
    stats = {'transparent': len(tr), 'expanded': 0, 'skipped': 0, 'callers': 0}
    if not tr:
        return stats

    def callee_of(c):
        if 'op' in c:
            return None
        for nm in (c.get('res'), c.get('def')):
            if nm:
                g = tr.get(strip_generics(nm))
                if g is not None:
                    return g
        return None
    originals = dict(tr)
    for p in list(prog.fns):
        f = prog.fns[p]
        if '::tests::' in p or '::test::' in p or not f.meta.get('body'):
            continue
        body = f.meta['body']
        changed = False
        for _ in range(DEPTH):
            nb = expand_body(body, lambda c: originals.get(callee_of(c).path) if callee_of(c) is not None else None, {p}, stats)
            if nb is None:
                break
            body = nb
            changed = True
        if changed:
            stats['callers'] += 1
            prog.fns[p] = Fn(p, dict(f.meta, body=body), f.crate, prog)
    return stats

"""CENSUS family: enumerate every panic-capable construct in a call-graph cone."""
import re
from collections import defaultdict
import core
from api import shorten, cone

PANIC_CALLEES = [   # matched against generics-stripped def / resolved paths
    (r'^core::option::Option::(unwrap|expect)$', 'unwrap'),
    (r'^core::result::Result::(unwrap|expect|unwrap_err|expect_err)$', 'unwrap'),
    (r'^core::panicking::(panic|panic_fmt|panic_display|panic_explicit|unreachable_display|assert_failed|panic_nounwind|panic_str_2015|panic_bounds_check)$', 'panic'),
    (r'^std::rt::(begin_panic|panic_fmt)$|^std::panicking::begin_panic$', 'panic'),
    (r'ops::index::Index(Mut)?<.*>>::index(_mut)?$|^core::ops::index::Index(Mut)?::index(_mut)?$', 'index'),
    (r'^core::slice::(split_at|split_at_mut|copy_from_slice|clone_from_slice|swap|chunks|chunks_exact|windows|rotate_left|rotate_right|split_first_chunk|first_chunk)$', 'slice-op'),
    (r'^alloc::vec::Vec::(remove|insert|swap_remove|drain|split_off)$', 'vec-op'),
    (r'^tinyvec::\w+::\w+::(remove|insert|swap_remove|drain|split_off)$', 'vec-op'),
    (r'^core::cell::RefCell::(borrow|borrow_mut)$', 'refcell'),
    (r'^<core::time::Duration as core::ops::arith::(Add|Sub|Mul|Div)', 'time-arith'),
    (r'^<std::time::Instant as core::ops::arith::(Add|Sub)', 'time-arith'),
    (r'^core::str::(split_at|split_at_mut)$', 'slice-op'),
    (r'^alloc::string::String::(remove|insert|insert_str|drain|split_off)$', 'vec-op'),
    (r'^alloc::collections::\w+::\w+::\w+::(remove|swap_remove_back|swap_remove_front|split_off)$', 'vec-op'),
]
_PC = [(re.compile(rx), k) for rx, k in PANIC_CALLEES]
NOISE_MACROS = {'debug', 'trace', 'warn', 'info', 'error', 'event', 'span'}


def raw_name(c):
    return c.get('res') or c.get('def') or ''


def sites(prog, fn):
    """[(bb, kind, what, macro)] panic-capable sites on non-cleanup blocks of fn"""
    out = []
    for bi, b in enumerate(fn.blocks):
        if b['cleanup']:
            continue
        t = b['t']
        sp = b['sp']
        macro = sp[2] if len(sp) > 2 else None
        if macro in NOISE_MACROS:
            continue
        if t[0] == 'assert' and t[3] != 'Other':
            out.append((bi, 'assert:' + t[3], None, macro))
        elif t[0] == 'call':
            c = t[1]
            if 'op' in c:
                continue
            names = [core.strip_generics(c.get('def', '')), core.strip_generics(c.get('res', '') or '')]
            rawn = [c.get('def', ''), c.get('res', '') or '']
            hit = None
            for rx, k in _PC:
                if any(rx.search(n) for n in rawn) or any(rx.search(n) for n in names):
                    hit = k
                    break
            if hit:
                out.append((bi, hit, core.last2(names[1] or names[0]) if hit != 'index' else 'index', macro))
    return out


def census(prog, roots, stop=None, cha_ok=None):
    """returns (cone set, {fn: [(bb, kind, what, macro)]})"""
    cn = cone(prog, roots, stop=stop, cha_ok=cha_ok)
    res = {}
    for p in sorted(cn):
        f = prog.fns[p]
        s = sites(prog, f)
        if s:
            res[p] = s
    return cn, res


# ------------------------------------------------------------------ tiny interval evaluation on MIR operands
TYMAX = {'u8': 2**8 - 1, 'u16': 2**16 - 1, 'u32': 2**32 - 1, 'u64': 2**64 - 1, 'usize': 2**64 - 1, 'u128': 2**128 - 1,
         'i8': 2**7 - 1, 'i16': 2**15 - 1, 'i32': 2**31 - 1, 'i64': 2**63 - 1, 'isize': 2**63 - 1, 'bool': 1}
LEN_CALLEES = re.compile(r'(slice::len|Vec::len|TinyVec::len|ArrayVec::len|BinDecoder::index|BinDecoder::len|String::len|str::len|VecDeque::len)$')
SMALL_CALLEES = {   # results that are bounded by construction (reason in the rule file)
    'Name::encoded_len': 2**63 - 1, 'Name::len': 2**63 - 1, 'Name::num_labels': 255,
}


def op_type(fn, op):
    if op[0] == 'k':
        return op[1].get('ty')
    pl = op[1]
    if isinstance(pl, int):
        return fn.locals[pl]
    return None


def ub(fn, op, depth=0):
    """sound upper bound of an integer operand, or None"""
    if op[0] == 'k':
        k = op[1]
        return k['int'] if 'int' in k and k['int'] >= 0 else None
    pl = op[1]
    if not isinstance(pl, int):
        # (_x.0) of a checked arithmetic tuple
        if len(pl) == 2 and pl[1] == '.0':
            ds = fn.defs().get(pl[0], [])
            if len(ds) == 1 and ds[0][2] == 'assign' and ds[0][3][0] == 'bin':
                return ub_bin(fn, ds[0][3], depth + 1, None)
        return None
    ty = fn.locals[pl]
    tmax = TYMAX.get(ty)
    if depth > 10:
        return tmax
    ds = [d for d in fn.defs().get(pl, [])]
    if pl > fn.argc and 1 < len(ds) <= 4 and all(d[2] in ('assign', 'call') for d in ds):
        # join of several definitions: the maximum of their bounds
        vals = []
        for d in ds:
            sub = Fn1(fn, d)
            v = sub.bound(depth + 1)
            if v is None:
                return tmax
            vals.append(v)
        v = max(vals)
        return v if tmax is None else min(v, tmax)
    if pl <= fn.argc or len(ds) != 1 or ds[0][2] == 'partial':
        return tmax
    d = ds[0]
    best = tmax
    if d[2] == 'assign':
        rv = d[3]
        v = None
        if rv[0] == 'use':
            v = ub(fn, rv[1], depth + 1)
        elif rv[0] == 'cast' and rv[1].startswith('IntToInt'):
            v = ub(fn, rv[2], depth + 1)
        elif rv[0] == 'bin':
            v = ub_bin(fn, rv, depth + 1, tmax)
        elif rv[0] == 'un' and rv[1] == 'PtrMetadata':
            v = 2**63 - 1
        if v is not None:
            best = v if best is None else min(best, v)
    elif d[2] == 'call':
        c = d[3][1]
        nm = core.last2(core.strip_generics(c.get('res') or c.get('def', ''))) if 'op' not in c else ''
        v = None
        if LEN_CALLEES.search(nm):
            v = 2**63 - 1
        elif nm in SMALL_CALLEES:
            v = SMALL_CALLEES[nm]
        if v is not None:
            best = v if best is None else min(best, v)
    return best


class Fn1:
    """bound of one definition (helper for joins)"""
    def __init__(self, fn, d):
        self.fn, self.d = fn, d

    def bound(self, depth):
        fn, d = self.fn, self.d
        if d[2] == 'assign':
            rv = d[3]
            if rv[0] == 'use':
                return ub(fn, rv[1], depth)
            if rv[0] == 'cast' and rv[1].startswith('IntToInt'):
                return ub(fn, rv[2], depth)
            if rv[0] == 'bin':
                return ub_bin(fn, rv, depth, None)
            if rv[0] == 'un' and rv[1] == 'PtrMetadata':
                return 2**63 - 1
            return None
        if d[2] == 'call':
            c = d[3][1]
            nm = core.last2(core.strip_generics(c.get('res') or c.get('def', ''))) if 'op' not in c else ''
            if LEN_CALLEES.search(nm):
                return 2**63 - 1
            return SMALL_CALLEES.get(nm)
        return None


def ub_bin(fn, rv, depth, tmax):
    op = rv[1]
    a = ub(fn, rv[2], depth)
    b = ub(fn, rv[3], depth)
    v = None
    if op in ('Add', 'AddWithOverflow', 'AddUnchecked') and a is not None and b is not None:
        v = a + b
    elif op in ('Mul', 'MulWithOverflow') and a is not None and b is not None:
        v = a * b
    elif op in ('Sub', 'SubWithOverflow') and a is not None:
        v = a
    elif op == 'Div' and a is not None:
        lo = rv[3][1]['int'] if rv[3][0] == 'k' and 'int' in rv[3][1] and rv[3][1]['int'] > 0 else 1
        v = a // lo
    elif op == 'Rem' and b is not None:
        v = max(b - 1, 0) if a is None else min(a, max(b - 1, 0))
    elif op == 'BitAnd':
        cands = [x for x in (a, b) if x is not None]
        v = min(cands) if cands else None
    elif op == 'Shr' and a is not None:
        sh = rv[3][1]['int'] if rv[3][0] == 'k' and 'int' in rv[3][1] else 0
        v = a >> sh
    elif op in ('BitOr', 'BitXor') and a is not None and b is not None:
        v = (1 << max(a.bit_length(), b.bit_length())) - 1
    if v is None:
        return tmax
    return v if tmax is None else min(v, tmax) if op not in ('Add', 'AddWithOverflow', 'Mul', 'MulWithOverflow') else v


def auto_discharge(prog, fn, bb, kind):
    """(reason) if the site is discharged by a local machine-checked argument, else None"""
    t = fn.blocks[bb]['t']
    if t[0] == 'assert':
        extra = t[4]
        if kind in ('assert:Overflow(Shl)', 'assert:Overflow(Shr)') and len(extra) == 2:
            sh = extra[1]
            ty = op_type(fn, extra[0])
            width = (TYMAX.get(ty, 0) + 1).bit_length() - 1 if ty in TYMAX else None
            if ty and ty.startswith('i') and ty in TYMAX:
                width = TYMAX[ty].bit_length() + 1
            if sh[0] == 'k' and 'int' in sh[1] and width and 0 <= sh[1]['int'] < width:
                return f'constant shift {sh[1]["int"]} < {width} bits'
            s_ub = ub(fn, sh)
            if s_ub is not None and width and s_ub < width:
                return f'shift amount <= {s_ub} < {width} bits'
        if kind in ('assert:DivisionByZero', 'assert:RemainderByZero'):
            cond = shorten(fn.term_operand(t[1]))
            m = re.match(r'^(!?)eq\((\d+),(\d+)\)$', cond)
            if m:
                val = (m.group(2) == m.group(3)) != (m.group(1) == '!')
                if val == bool(t[2]):
                    return 'constant non-zero divisor'
        if kind in ('assert:Overflow(Add)', 'assert:Overflow(Mul)') and len(extra) == 2:
            ty = op_type(fn, extra[0]) or op_type(fn, extra[1])
            tmax = TYMAX.get(ty)
            a, b = ub(fn, extra[0]), ub(fn, extra[1])
            if tmax is not None and a is not None and b is not None:
                tot = a + b if 'Add' in kind else a * b
                if tot <= tmax:
                    return f'operand bounds {a} and {b} cannot exceed {ty}::MAX'
        if kind == 'assert:BoundsCheck' and len(extra) == 2:
            ln, idx = extra
            li, ii = ub(fn, ln), (idx[1].get('int') if idx[0] == 'k' else None)
            if ln[0] == 'k' and 'int' in ln[1] and ii is not None and ii < ln[1]['int']:
                return f'constant index {ii} < constant length {ln[1]["int"]}'
    return None

"""ARGNAME family (a contradiction rule in the sense of Engler et al.): a call binds an argument whose own name (last field /
local / parameter name of its term) is the name of ANOTHER parameter of the callee with the same type, while the parameter it is
bound to is named differently (and does not contain that name).  Two stated beliefs disagree: either the argument or the
position is wrong - the classic swap of two same-typed arguments (`exchange(.., options.timeout, options.connect_timeout, ..)`
into `(connect_timeout, request_timeout)`), which type checking cannot see.  `self` receivers are ignored (calling x.zone_of(name)
with a value called `name` as receiver is ordinary)."""
import re
import core
from api import shorten


def _params(f):
    b = f.meta.get('body') or {}
    names = {}
    for n, l in b.get('vars', []):
        if isinstance(l, int) and 1 <= l <= b.get('argc', 0) and l not in names:
            names[l] = n
    argc = b.get('argc', 0)
    return [names.get(i) for i in range(1, argc + 1)], (b.get('locals') or [])[1:argc + 1]


def _last_name(t):
    t = t.strip()
    m = re.search(r'\.([a-z_][a-z_0-9]*)$', t)
    if m:
        return m.group(1)
    m = re.fullmatch(r'var\((\w+)\)', t)
    if m:
        return m.group(1)
    return None


def check(cx, rule, scope_rx, floor=1, exempt=()):
    """every resolved call from a function whose path matches scope_rx to a local function with named parameters"""
    prog = cx.prog
    srx = re.compile(scope_rx)
    pairs = 0
    for f in prog.fns.values():
        if not srx.search(f.path) or '::tests::' in f.path or '::test::' in f.path:
            continue
        fnames = None
        for bi, c, t in prog.calls_of(f):
            tg = c.get('res') or c.get('def')
            g = prog.fns.get(core.strip_generics(tg)) if tg else None
            if not g or not g.meta.get('body'):
                continue
            pn, pt = _params(g)
            if len(pn) != len(t[2]) or len(pn) < 2:
                continue
            args = []
            for i in range(len(t[2])):
                try:
                    args.append(shorten(f.term_operand(t[2][i])))
                except Exception:
                    args.append('')
            for i, a in enumerate(args):
                ln = _last_name(a)
                if ln is None:
                    m = re.fullmatch(r'\^*arg(\d+)', a)
                    if m:
                        if fnames is None:
                            fnames = _params(f)[0]
                        k = int(m.group(1)) - 1
                        ln = fnames[k] if k < len(fnames) else None
                if not ln or ln == 'self' or pn[i] in (None, 'self'):
                    continue
                pairs += 1
                if pn[i] == ln or ln in pn[i]:
                    continue
                clash = [q for j, q in enumerate(pn) if j != i and q == ln and pt[j] == pt[i]]
                key = (shorten(f.path + '(')[:-1], shorten(g.path + '(')[:-1], ln, pn[i])
                if clash and key not in exempt:
                    cx.check(rule, False, f.path, f'call:{shorten(g.path + "(")[:-1]}#{i + 1}', 'argument-name-agrees-with-the-parameter-it-is-bound-to',
                             f'`{a[-60:]}` is passed as parameter `{pn[i]}` of {shorten(g.path + "(")[:-1]}, which also has a parameter `{ln}` of the same type '
                             f'({pt[i]}): swapped or wrong argument', f.loc(bi))
    cx.check(rule, True, scope_rx, 'scope', 'argument-name-agreement-evaluated', f'{pairs} named (argument, parameter) pairs')
    cx.floor(rule, pairs, floor, 'named (argument, parameter) pairs compared in scope ' + scope_rx[:60])
    cx.notes.append(f'{rule}: {pairs} named argument/parameter pairs compared in {scope_rx}')
    return pairs


def check_fields(cx, rule, scope_rx, floor=1, exempt=()):
    """same contradiction for aggregate constructions: field `a` of a struct is initialised from a value whose own name is the name of
    ANOTHER field `b` of the same struct with the same type (`soft_limit: self.hard_limit` in a clone-like constructor)."""
    prog = cx.prog
    srx = re.compile(scope_rx)
    pairs = 0
    for f in prog.fns.values():
        if not srx.search(f.path) or '::tests::' in f.path or '::test::' in f.path:
            continue
        fnames = None
        for bi, b in enumerate(f.blocks):
            for si, st in enumerate(b['s']):
                if st[0] != '=' or st[2][0] != 'adt':
                    continue
                a = prog.adts.get(st[2][1])
                if not a or not a.get('local'):
                    continue
                v = next((v_ for v_ in a['variants'] if v_['name'] == st[2][2]), None)
                if not v or len(v['fields']) < 2 or len(v['fields']) != len(st[2][3]):
                    continue
                ftypes = {fl[0]: fl[2] for fl in v['fields']}
                for fl, o in zip(v['fields'], st[2][3]):
                    fname = fl[0]
                    if fname.isdigit():
                        continue
                    try:
                        t = shorten(f.term_operand(o))
                    except Exception:
                        continue
                    ln = _last_name(t)
                    if ln is None:
                        m = re.fullmatch(r'\^*arg(\d+)', t)
                        if m:
                            if fnames is None:
                                fnames = _params(f)[0]
                            k = int(m.group(1)) - 1
                            ln = fnames[k] if k < len(fnames) else None
                    if not ln:
                        continue
                    pairs += 1
                    if ln == fname or ln in fname or fname in ln:
                        continue
                    key = (shorten(f.path + '(')[:-1], st[2][1].rsplit('::', 1)[-1], fname, ln)
                    if ln in ftypes and ftypes[ln] == ftypes[fname] and key not in exempt:
                        cx.check(rule, False, f.path, f'construct:{st[2][1].rsplit("::", 1)[-1]}.{fname}', 'field-initialised-from-a-value-of-its-own-name',
                                 f'field `{fname}` of {st[2][1].rsplit("::", 1)[-1]} is initialised from `{t[-70:]}`, and the struct also has a field `{ln}` of the same type '
                                 f'({ftypes[fname]}): wrong field copied', f.loc(bi))
    cx.check(rule, True, scope_rx, 'scope', 'field-name-agreement-evaluated', f'{pairs} named (field, initialiser) pairs')
    cx.floor(rule, pairs, floor, 'named (field, initialiser) pairs compared in scope ' + scope_rx[:60])
    cx.notes.append(f'{rule}: {pairs} named field/initialiser pairs compared in {scope_rx}')
    return pairs

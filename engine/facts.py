"""E1 front end: run the mirfacts driver over /repo (current working tree) and cache the facts
keyed by a hash of every source file that can influence them."""
import fcntl, hashlib, json, os, shutil, subprocess, sys, time, uuid

VERIF = os.path.dirname(os.path.dirname(os.path.abspath(__file__)))
REPO = os.environ.get('VERIF_REPO', '/repo')
CACHE = os.environ.get('VERIF_CACHE', os.path.join(VERIF, '.cache'))
DRIVER_DIR = os.path.join(VERIF, 'driver')
DRIVER = os.path.join(DRIVER_DIR, 'target', 'release', 'mirfacts')

FULL_FEATURES = ('hickory-proto/dnssec-ring,hickory-net/dnssec-ring,hickory-resolver/dnssec-ring,'
                 'hickory-resolver/recursor,hickory-server/dnssec-ring,hickory-server/sqlite,'
                 'hickory-server/resolver,hickory-server/recursor,hickory-proto/access-control')
LIBS = ['-p', 'hickory-proto', '-p', 'hickory-net', '-p', 'hickory-resolver', '-p', 'hickory-server']
CONFIGS = {
    # name: (cargo args, crates expected)
    'FULL': (LIBS + ['--features', FULL_FEATURES],
             ['hickory_proto', 'hickory_net', 'hickory_resolver', 'hickory_server']),
    'DEFAULT': (LIBS, ['hickory_proto', 'hickory_net', 'hickory_resolver', 'hickory_server']),
    'AWSLC': (LIBS + ['--features', FULL_FEATURES.replace('dnssec-ring', 'dnssec-aws-lc-rs')],
              ['hickory_proto', 'hickory_net', 'hickory_resolver', 'hickory_server']),
    'EXTRA': (['-p', 'hickory-proto', '--features', 'hickory-proto/mdns,hickory-proto/serde,hickory-proto/dnssec-ring'],
              ['hickory_proto']),
    'BIN': (['-p', 'hickory-dns', '--no-default-features', '--features', 'sqlite,resolver,recursor,dnssec-ring'],
            ['hickory_dns']),
}


def sysroot():
    return subprocess.check_output(['rustc', '+nightly', '--print', 'sysroot'], text=True).strip()


def tree_hash(repo=None):
    repo = repo or REPO
    h = hashlib.sha256()
    files = []
    for root, dirs, fs in os.walk(repo):
        dirs[:] = sorted(d for d in dirs if d not in ('target', '.git', 'SEEDED') and not d.startswith('.'))
        for f in sorted(fs):
            if f.endswith('.rs') or f in ('Cargo.toml', 'Cargo.lock') or f.endswith('.pest'):
                files.append(os.path.join(root, f))
    for p in files:
        h.update(os.path.relpath(p, repo).encode())
        h.update(b'\0')
        try:
            with open(p, 'rb') as fh:
                h.update(hashlib.sha256(fh.read()).digest())
        except OSError:
            h.update(b'?')
    # the driver is part of the key
    for p in (os.path.join(DRIVER_DIR, 'src', 'main.rs'),):
        with open(p, 'rb') as fh:
            h.update(hashlib.sha256(fh.read()).digest())
    return h.hexdigest()[:24], len(files)


def build_driver():
    env = dict(os.environ, CARGO_NET_OFFLINE='true')
    env.pop('RUSTC_WORKSPACE_WRAPPER', None)
    env.pop('RUSTFLAGS', None)
    r = subprocess.run(['cargo', 'build', '--release', '--offline'], cwd=DRIVER_DIR, env=env,
                       stdout=subprocess.PIPE, stderr=subprocess.STDOUT, text=True)
    if r.returncode != 0 or not os.path.exists(DRIVER):
        sys.stderr.write(r.stdout)
        raise SystemExit('driver build failed')


def facts_dir(config='FULL', repo=None, quiet=False):
    """Return (dir, info).  Extract if the cache has no entry for the current tree."""
    repo = repo or REPO
    os.makedirs(CACHE, exist_ok=True)
    lock = open(os.path.join(CACHE, f'lock.{config}'), 'w')
    fcntl.flock(lock, fcntl.LOCK_EX)
    try:
        key, nfiles = tree_hash(repo)
        d = os.path.join(CACHE, 'facts', key, config)
        stamp = os.path.join(d, 'STAMP.json')
        if os.path.exists(stamp):
            info = json.load(open(stamp))
            info['cached'] = True
            return d, info
        t0 = time.time()
        build_driver()
        args, crates = CONFIGS[config]
        tgt = os.path.join(CACHE, 'target', config)
        fp = os.path.join(tgt, 'debug', '.fingerprint')
        if os.path.isdir(fp):
            for e in os.listdir(fp):
                if e.startswith('hickory'):
                    shutil.rmtree(os.path.join(fp, e), ignore_errors=True)
        tmpd = d + '.tmp'
        shutil.rmtree(tmpd, ignore_errors=True)
        os.makedirs(tmpd)
        nonce = uuid.uuid4().hex
        env = dict(os.environ)
        env.update(LD_LIBRARY_PATH=os.path.join(sysroot(), 'lib'),
                   RUSTFLAGS='-Zmir-opt-level=0 -Awarnings',
                   RUSTC_WORKSPACE_WRAPPER=DRIVER, CARGO_TARGET_DIR=tgt, CARGO_NET_OFFLINE='true',
                   VERIF_FACTS_DIR=tmpd, VERIF_NONCE=nonce, VERIF_CONFIG=config)
        cmd = ['cargo', '+nightly', 'check', '--offline'] + args
        r = subprocess.run(cmd, cwd=repo, env=env, stdout=subprocess.PIPE, stderr=subprocess.STDOUT, text=True)
        if r.returncode != 0:
            sys.stderr.write(r.stdout[-6000:])
            raise SystemExit(f'fact extraction failed for {config} (cargo check exit {r.returncode})')
        for c in crates:
            p = os.path.join(tmpd, c + '.json')
            if not os.path.exists(p):
                raise SystemExit(f'fact extraction produced no facts for {c} ({config})')
        info = {'config': config, 'nonce': nonce, 'tree': key, 'files_hashed': nfiles, 'crates': crates,
                'extract_s': round(time.time() - t0, 1), 'cmd': ' '.join(cmd), 'repo': repo}
        json.dump(info, open(os.path.join(tmpd, 'STAMP.json'), 'w'))
        shutil.rmtree(d, ignore_errors=True)
        os.makedirs(os.path.dirname(d), exist_ok=True)
        os.rename(tmpd, d)
        # keep the cache small: drop fact sets of other trees (keep the 30 most recent)
        base = os.path.join(CACHE, 'facts')
        ents = sorted((os.path.getmtime(os.path.join(base, e)), e) for e in os.listdir(base))
        for _, e in ents[:-30]:
            if e != key:
                shutil.rmtree(os.path.join(base, e), ignore_errors=True)
        info['cached'] = False
        if not quiet:
            sys.stderr.write(f"[facts] {config} extracted in {info['extract_s']}s -> {d}\n")
        return d, info
    finally:
        fcntl.flock(lock, fcntl.LOCK_UN)
        lock.close()


def load(config='FULL', repo=None):
    d, info = facts_dir(config, repo)
    crates = {}
    for c in info['crates']:
        doc = json.load(open(os.path.join(d, c + '.json')))
        if doc['nonce'] != info['nonce']:
            raise SystemExit(f'facts for {c} are from another run (nonce mismatch)')
        crates[c] = doc
    return crates, info


if __name__ == '__main__':
    cfg = sys.argv[1] if len(sys.argv) > 1 else 'FULL'
    d, info = facts_dir(cfg)
    print(d, json.dumps(info))

"""LOOP family, state-machine variant: termination of a `loop { match self.state { .. } }` scanner.
Every iteration that does not consume input (no progress call) must move the scanner state along an edge
of a graph that has no feasible cycle, where feasibility is judged on the constraints the iteration's
branches put on the (unchanged, because nothing was consumed) look-ahead character."""
import re
from collections import defaultdict
from api import shorten

WS = {9, 10, 11, 12, 13, 32, 0x85, 0xA0}
CTL = set(range(0, 32)) | set(range(127, 160))


def atoms_of(prop, peek):
    """proposition (shortened) -> list of (atom, bool) about the look-ahead, [] if it says nothing we model"""
    neg = prop.startswith('!')
    p = prop[1:] if neg else prop
    some = peek + '@Some.0'
    if p == f'ok({peek})':
        return [(('some',), not neg)]
    m = re.fullmatch(r'eq\((\d+),' + re.escape(some) + r'\)', p)
    if m:
        return [(('eq', int(m.group(1))), not neg)]
    m = re.fullmatch(r'in\(' + re.escape(some) + r',([\d|]+)\)', p)
    if m:
        vals = [int(x) for x in m.group(1).split('|')]
        if neg:
            return [(('eq', v), False) for v in vals]
        return [(('in', frozenset(vals)), True)]
    m = re.fullmatch(r'(?:\w+::)*is_whitespace\(' + re.escape(some) + r'\)', p)
    if m:
        return [(('ws',), not neg)]
    m = re.fullmatch(r'(?:\w+::)*is_control\(' + re.escape(some) + r'\)', p)
    if m:
        return [(('ctl',), not neg)]
    return []


def consistent(cons):
    """cons: list of (atom, bool); False when they cannot hold of one character"""
    val = {}
    for a, b in cons:
        if val.setdefault(a, b) != b:
            return False
    eqs = [a[1] for a, b in val.items() if a[0] == 'eq' and b]
    if len(set(eqs)) > 1:
        return False
    if eqs:
        n = eqs[0]
        if val.get(('some',)) is False:
            return False
        if val.get(('ws',), n in WS) != (n in WS) or val.get(('ctl',), n in CTL) != (n in CTL):
            return False
    for a, b in val.items():
        if a[0] == 'in' and b:
            live = [v for v in a[1] if val.get(('eq', v)) is not False and (not eqs or eqs[0] == v)
                    and val.get(('ws',), v in WS) == (v in WS) and val.get(('ctl',), v in CTL) == (v in CTL)]
            if not live:
                return False
    if val.get(('some',)) is False and any(b for a, b in val.items() if a[0] in ('eq', 'in', 'ws', 'ctl')):
        return False
    return True


def iterations(cx, f, head, progress, state_rx, max_paths=200000):
    """enumerate the progress-free paths from the loop head back to itself.
    returns (list of dict(blocks, props), n_paths_explored, inner_cycles)"""
    out = []
    inner = []
    n = [0]
    stack = [(s, (head, s), []) for s in f.succs(head) if not f.blocks[s]['cleanup']]
    # iterative DFS carrying the path
    work = [(head, [head], [])]
    while work:
        bb, path, props = work.pop()
        n[0] += 1
        if n[0] > max_paths:
            raise RuntimeError('path blow-up in ' + f.path)
        ep = f.edge_props(bb)
        for s in f.succs(bb):
            if f.blocks[s]['cleanup']:
                continue
            pr = props + [shorten(p) for p in ep.get(s, [])]
            if s == head:
                out.append({'blocks': path, 'props': pr})
                continue
            if s in progress:
                continue
            if s in path:
                inner.append(path + [s])
                continue
            if f.blocks[s]['t'][0] in ('return', 'unreachable', 'resume'):
                continue
            work.append((s, path + [s], pr))
    return out, n[0], inner

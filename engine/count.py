"""COUNT family: how many times an effect (e.g. sending a response) happens on every normal path.
Abstract domain: subsets of {0,1,2} (2 = two or more); bottom-up summaries over the call graph,
SCCs are TOP.  The per-function walk is value-sensitive (core.Reach valuations)."""
from collections import defaultdict, deque
import core

TOP = frozenset({0, 1, 2})


def add(a, b):
    return frozenset(min(2, x + y) for x in a for y in b)


class Counter:
    def __init__(self, cx, base_effect, scope_crates=('hickory_server',), opaque=()):
        """base_effect(fn, callee_dict, term) -> True if this call IS the effect (count 1)."""
        self.cx = cx
        self.prog = cx.prog
        self.base = base_effect
        self.scope = scope_crates
        self.opaque = set(opaque)     # fn paths treated as base effect {1} (the real sink)
        self.memo = {}
        self.stack = []
        self.interesting = self._interesting()

    def _callees(self, f):
        out = []
        for bi, c, t in self.prog.calls_of(f):
            out.append((bi, c, t, self.prog.callee_targets(f, c)))
        return out

    def _closures_built(self, f):
        out = []
        for bi, b in enumerate(f.blocks):
            if b['cleanup']:
                continue
            for st in b['s']:
                if st[0] == '=' and st[2][0] in ('closure', 'coroutine'):
                    out.append((bi, core.strip_generics(st[2][1]), st[2][0]))
        return out

    def _interesting(self):
        """functions from which an effect is reachable"""
        direct = set()
        edges = defaultdict(set)
        fns = [f for f in self.prog.fns.values() if f.crate in self.scope]
        for f in fns:
            for bi, c, t, tg in self._callees(f):
                if self.base(f, c, t) or any(x in self.opaque for x in tg):
                    direct.add(f.path)
                for x in tg:
                    edges[x].add(f.path)
            for bi, cp, k in self._closures_built(f):
                edges[cp].add(f.path)
        seen = set(direct)
        dq = deque(direct)
        while dq:
            x = dq.popleft()
            for y in edges.get(x, ()):
                if y not in seen:
                    seen.add(y)
                    dq.append(y)
        return seen

    def wrapper_of(self, f):
        """async fn / async_trait wrapper: a body whose only job is to build one coroutine"""
        cb = [c for c in self._closures_built(f) if c[2] == 'coroutine']
        n_calls = sum(1 for _ in self.prog.calls_of(f))
        if len(cb) == 1 and n_calls <= 3 and len([b for b in f.blocks if not b['cleanup']]) <= 8:
            return cb[0][1]
        return None

    def summary(self, path):
        if path in self.opaque:
            return frozenset({1})
        if path in self.memo:
            return self.memo[path]
        if path in self.stack:
            return TOP
        f = self.prog.fn(path)
        if f is None or path not in self.interesting:
            return frozenset({0})
        self.stack.append(path)
        try:
            w = self.wrapper_of(f)
            if w and w in self.prog.fns:
                r = self.summary(w)
            else:
                ret = self.walk(f)
                r = frozenset().union(*ret.values()) if ret else frozenset({0})
        finally:
            self.stack.pop()
        self.memo[path] = r
        return r

    def block_inc(self, f):
        inc = {}
        # an inline `async {}` block counts where it is built (it is awaited in place)
        for bi, cp, k in self._closures_built(f):
            if k == 'coroutine' and cp in self.interesting:
                inc[bi] = add(inc.get(bi, frozenset({0})), self.summary(cp))
        for bi, c, t, tg in self._callees(f):
            if core.last2(core.strip_generics(c.get('def', ''))) == 'Future::poll':
                continue   # polling a future built earlier: the creating call/aggregate was counted
            if self.base(f, c, t):
                inc[bi] = frozenset({1})
                continue
            s = None
            for x in tg:
                if x in self.interesting or x in self.opaque:
                    sx = self.summary(x)
                    s = sx if s is None else (s | sx)
            if s is not None and s != frozenset({0}):
                inc[bi] = add(inc.get(bi, frozenset({0})), s)
        return inc

    def walk(self, f, edge_ok=None, start=0, start_count=0):
        """returns {return_bb: set(counts)}; also stores per-block entry counts in self.last"""
        inc = self.block_inc(f)
        R = self.cx.reach(f)
        seen = defaultdict(set)
        init = (frozenset(), start_count)
        dq = deque([(start, init)])
        seen[start].add(init)
        rets = defaultdict(set)
        steps = 0
        while dq:
            bb, (fv, cnt) = dq.popleft()
            steps += 1
            if steps > 400000:
                raise RuntimeError('count blow-up in ' + f.path)
            val = R._exec_block(bb, dict(fv))
            t = f.blocks[bb]['t']
            ncnts = add(frozenset({cnt}), inc.get(bb, frozenset({0})))
            if t[0] == 'return':
                rets[bb] |= set(ncnts)
                continue
            succs = f.succs(bb)
            if t[0] == 'switch' and t[1][0] in ('c', 'm') and isinstance(t[1][1], int) and t[1][1] in val and val[t[1][1]][0] != 'a':
                v = val[t[1][1]][1]
                tgt = t[3]
                for av, ab in t[2]:
                    if av == v:
                        tgt = ab
                succs = [tgt]
                if t[1][0] == 'm':
                    val.pop(t[1][1], None)
            props = f.edge_props(bb) if t[0] == 'switch' else {}
            for s in succs:
                if f.blocks[s]['cleanup']:
                    continue
                if edge_ok is not None and not edge_ok(bb, s, props.get(s, [])):
                    continue
                for nc in ncnts:
                    st = (frozenset(val.items()), nc)
                    if st not in seen[s]:
                        if len(seen[s]) > 96:
                            st = (frozenset(), nc)
                            if st in seen[s]:
                                continue
                        seen[s].add(st)
                        dq.append((s, st))
        self.last = {bb: {c for _, c in sts} for bb, sts in seen.items()}
        return rets

#!/usr/bin/env python3
"""Regenerate rules/closure_pins.json: for every role-named closure the rule files anchor on, the content tokens it has on
the current tree.  The engine uses them ONLY to tell same-role sibling closures apart (engine/core.py closure_roles);
run after reviewing a rule change that adds or moves a closure anchor."""
import sys, re, glob, json, os
V = os.path.dirname(os.path.dirname(os.path.abspath(__file__)))
sys.path.insert(0, os.path.join(V, 'engine'))
import facts, core, api
crates, info = facts.load('FULL')
prog = core.Program(crates, pins={})
bodies = {}
for doc in crates.values():
    for rawp, meta in doc['fns'].items():
        if meta.get('body') and '{closure#' in rawp:
            bodies.setdefault(core._strip(rawp), meta['body'])
new2old = {v: k for k, v in prog.closure_rename.items()}
refs = set()
for fn in sorted(glob.glob(os.path.join(V, 'rules', 'C*.py')) + [os.path.join(V, 'rules', 'helpers.py')]):
    s = open(fn).read().replace('\\', '')
    for m in re.finditer(r"([\w:<>' ;]*?)((?:::\{closure[@#][^}]*\})+)", s):
        segs = m.group(2)
        if '@' not in segs:
            continue
        head = m.group(1).split("'")[-1].split(' ')[-1]
        refs.add(head + segs)
pins = {}
for r in sorted(refs):
    for p in prog.fns:
        if (p.endswith(r) or api.shorten(p + '(')[:-1].endswith(r)) and p in new2old and re.search(r'\{closure@\w+#\d+\}$', p):
            pins[p] = core.closure_tokens(bodies[new2old[p]])
json.dump(pins, open(os.path.join(V, 'rules', 'closure_pins.json'), 'w'), indent=1, sort_keys=True)
print(len(pins), 'pinned closures')

#!/usr/bin/env python3
"""Confirm a seeded defect produced by a sub-agent, in its scratch worktree, and store it under
/verif/seeded/<name>/.  usage: confirm_seed.py <name> <worktree>
Steps: (1) demo WITH patch must fail, (2) demo WITHOUT patch must pass, (3) feature build with patch
compiles, (4) pinned baseline suite with patch: every stable test passes."""
import json, os, shutil, subprocess, sys, time
name, wt = sys.argv[1], sys.argv[2]
sd = os.path.join(wt, 'SEEDED')
meta = json.load(open(os.path.join(sd, 'meta.json')))
out = os.path.join('/verif/seeded', name)
os.makedirs(out, exist_ok=True)
for f in ('patch.diff', 'demo.diff'):
    shutil.copy(os.path.join(sd, f), os.path.join(out, f))
env = dict(os.environ, CARGO_NET_OFFLINE='true')

def sh(cmd, **kw):
    p = subprocess.run(cmd, shell=True, cwd=wt, env=env, stdout=subprocess.PIPE, stderr=subprocess.STDOUT, text=True, **kw)
    return p.returncode, p.stdout

log = []
def step(title, cmd):
    t0 = time.time()
    rc, o = sh(cmd)
    log.append(f'### {title}\n$ {cmd}\nexit={rc} ({time.time()-t0:.0f}s)\n' + '\n'.join(o.splitlines()[-25:]) + '\n')
    return rc, o

# normalise the tree: clean, then apply patch + demo
sh('git reset -q && git checkout -- . && git clean -fdq -e SEEDED -e target')
rc, o = sh(f'git apply {out}/patch.diff && git apply {out}/demo.diff')
assert rc == 0, o
demo = meta['demo_cmd']
r1, _ = step('demo WITH patch (must fail)', demo)
sh(f'git apply -R {out}/patch.diff')
r2, _ = step('demo WITHOUT patch (must pass)', demo)
sh(f'git apply {out}/patch.diff')
r3, _ = step('feature build WITH patch', 'cargo check --offline -p hickory-proto -p hickory-net -p hickory-resolver -p hickory-server -p hickory-dns '
             '--features hickory-proto/dnssec-ring,hickory-net/dnssec-ring,hickory-resolver/dnssec-ring,hickory-resolver/recursor,'
             'hickory-server/dnssec-ring,hickory-server/sqlite,hickory-server/resolver,hickory-server/recursor,hickory-dns/sqlite,hickory-dns/resolver,hickory-dns/recursor,hickory-dns/dnssec-ring')
# baseline WITHOUT the demo (the demo is not part of the existing suite)
sh(f'git apply -R {out}/demo.diff')
r4, o4 = step('baseline WITH patch (stable tests must pass)', 'python3 /verif/tools/baseline.py .')
ok = (r1 != 0 and r2 == 0 and r3 == 0 and r4 == 0)
meta['confirmed'] = {'demo_with_patch_exit': r1, 'demo_without_patch_exit': r2, 'feature_build_exit': r3,
                     'baseline_exit': r4, 'baseline_line': next((l for l in o4.splitlines() if l.startswith('stable=')), ''),
                     'ok': ok, 'at': time.strftime('%Y-%m-%dT%H:%M:%SZ', time.gmtime())}
json.dump(meta, open(os.path.join(out, 'meta.json'), 'w'), indent=1)
open(os.path.join(out, 'confirm.log'), 'w').write('\n'.join(log))
print(name, 'CONFIRMED' if ok else 'NOT-CONFIRMED', meta['confirmed'])

import sys, json, importlib, os, re, textwrap
sys.path.insert(0,'/verif/engine'); sys.path.insert(0,'/verif/rules')
props = {json.loads(l)['id']: json.loads(l) for l in open('/verif/properties.jsonl')}
res = json.load(open('/verif/seeded/RESULTS.json')) if os.path.exists('/verif/seeded/RESULTS.json') else {}
out = []
for pid in sorted(props):
    mod = importlib.import_module(pid)
    ev = json.load(open(f'/verif/evidence/{pid}.json'))
    rules = ev['coverage']['rules']
    out.append(f"### {pid} — {props[pid]['title']}\n")
    out.append("*Decided.* " + textwrap.fill(mod.EXPLANATION, 100) + "\n")
    out.append("*Not decided.* " + textwrap.fill(mod.NOT_DECIDED, 100) + "\n")
    rr = ', '.join(f"{k} {v['discharged']}/{v['obligations']}" for k, v in rules.items())
    out.append(f"*Rule instances on the current tree (discharged/obligations).* {rr}; anchors {ev['coverage']['anchors_resolved']}.\n")
    meta = json.load(open(f'/verif/seeded/{pid}/meta.json'))
    summ = meta.get('summary','')
    summ = summ[:420] + ('…' if len(summ) > 420 else '')
    r = res.get(pid) or {}
    fired = r.get('fired', {})
    out.append(f"*Seeded change (`seeded/{pid}/`).* " + textwrap.fill(summ, 100) + f"\n  Caught by: {', '.join(f'{k}: ' + '/'.join(v) for k, v in fired.items()) or '—'}.\n")
open('/tmp/sec5.md','w').write('\n'.join(out))
print(len('\n'.join(out)))

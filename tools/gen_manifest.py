#!/usr/bin/env python3
"""Regenerate /verif/MANIFEST.json from the rule modules present in rules/ (one check per claimed
property; every other property goes to not_applicable with its reason from NA_REASONS)."""
import importlib, json, os, re, sys
FAM = re.compile(r'[A-Z]+(/[A-Z]+)*')
V = os.path.dirname(os.path.dirname(os.path.abspath(__file__)))
sys.path.insert(0, os.path.join(V, 'engine')); sys.path.insert(0, os.path.join(V, 'rules'))
props = [json.loads(l) for l in open(os.path.join(V, 'properties.jsonl'))]
NA_REASONS = json.load(open(os.path.join(V, 'tools', 'na_reasons.json'))) if os.path.exists(os.path.join(V, 'tools', 'na_reasons.json')) else {}
checks, na = [], []
for p in props:
    pid = p['id']
    if os.path.exists(os.path.join(V, 'rules', pid + '.py')):
        m = importlib.import_module(pid)
        checks.append({
            'property_id': pid,
            'quick_cmd': f'./check {pid} --tier quick',
            'thorough_cmd': f'./check {pid} --tier thorough',
            'evidence_file': f'/verif/evidence/{pid}.json',
            'replay_cmd_template': './check replay {path}',
            'engine': 'mirfacts+rules',
            'level_claimed': {
                'category': 'other',
                'text': ('Static analysis of structural necessary conditions, not the whole behaviour. Decided: ' + m.EXPLANATION +
                         ' NOT decided: ' + m.NOT_DECIDED),
                'design_ref': f'DESIGN.md section 5 ({pid})'},
            'level_note': 'Trusted base: rustc nightly MIR + type resolution, the mirfacts driver, engine/core.py (term tracing, '
                          'cut-set reachability), the RFC-derived guard tables in rules/' + pid + '.py. Assumes: ' + '; '.join(m.ASSUMPTIONS),
            'technique': getattr(m, 'TECHNIQUE', None) or (
                'static analysis (no execution of hickory-dns): ' + FAM.sub(lambda x: x.group(0), m.EXPLANATION.split(' rules ')[0]) +
                ' rules of the /verif rule engine over MIR facts (pre-optimisation mir_promoted, resolved callees) extracted by a rustc_private '
                'driver from the type-checked feature-full build of /repo, with helper-semantics specs (rules/helpers.py), argument/field-name '
                'contradiction lints (engine/argnames.py) and call-site expansion of new private helpers (engine/inline.py) where the rule '
                'file uses them; thorough tier: same rules on the dnssec-aws-lc-rs build, self-test on every seeded defect and mutant of the '
                'property (must be reported) and on its behaviour-preserving refactorings (must stay silent) in scratch copies'),
        })
    else:
        na.append({'property_id': pid, 'reason': NA_REASONS.get(pid, 'static check under construction at this commit (DESIGN.md section 8); not claimed yet')})
man = {
    'version': 1,
    'setup_cmd': 'cd /verif/driver && CARGO_NET_OFFLINE=true cargo build --release --offline && cd /verif && python3 engine/facts.py FULL >/dev/null',
    'hooks': {'guard': 'hickory_dns_verif',
              'enable': 'none needed: the analysis reads /repo through a rustc_private driver (RUSTC_WORKSPACE_WRAPPER under cargo +nightly check); no instrumentation is compiled into hickory-dns',
              'baseline_off_cmd': 'cd /repo && cargo nextest run --workspace --no-fail-fast --tool-config-file pb:/w/lib/nextest.toml --profile pb --test-threads 8 --offline',
              'source_commits': [], 'add_only': True},
    'engines': [
        {'name': 'mirfacts', 'path': 'driver/', 'serves_properties': [c['property_id'] for c in checks],
         'kind_free_text': 'rustc_private fact extractor: items + pre-optimisation MIR (mir_promoted) of every hickory crate under the real build flags'},
        {'name': 'rules', 'path': 'engine/ + rules/', 'serves_properties': [c['property_id'] for c in checks],
         'kind_free_text': 'Python rule engine: normal-path CFG, access-path terms, guard normal form (enum is/eq and total-order aliases), value-sensitive cut-set reachability (flags, negations and `?` threaded), transparent-helper expansion; one declarative rule file per property'}],
    'checks': checks,
    'not_applicable': na,
    'notes': 'Technique family: static analysis only. Known genuine defects are listed in known_findings.json (see DESIGN.md section 6).',
}
json.dump(man, open(os.path.join(V, 'MANIFEST.json'), 'w'), indent=1)
print('checks', [c['property_id'] for c in checks], 'na', len(na))

#!/bin/sh
# usage: tools/try_patch.sh <patch.diff> <Cxx> [<Cyy> ...] -- apply a candidate change to a scratch worktree of /repo HEAD, run the checks against it
# (VERIF_REPO), remove the worktree, and re-run the checks on /repo to restore the evidence files
P="$1"; shift
D=$(mktemp -d /tmp/wt/try.XXXXXX)
git -C /repo worktree add --detach -f "$D" HEAD -q || exit 2
(cd "$D" && git apply -3 "$P") || { git -C /repo worktree remove --force "$D"; exit 2; }
for C in "$@"; do VERIF_REPO="$D" /verif/check "$C" | grep -E "rule=|^\[C|^     " | cut -c1-300; done
git -C /repo worktree remove --force "$D"
for C in "$@"; do /verif/check "$C" | grep -E "^\[C|VIOLATION" | sed 's/^/clean: /' | cut -c1-120; done

#!/usr/bin/env python3
"""Assemble /verif/DESIGN.md = docs/design_head.md + generated section 5 + generated section 7 table + docs/design_tail.md.
Section 5 comes from the rule modules (EXPLANATION / NOT_DECIDED), the evidence files and seeded/*/meta.json;
the seed table from seeded/DETECTION.json and the self-test notes of the thorough evidence."""
import sys, json, importlib, os, re, textwrap, glob
V = os.path.dirname(os.path.dirname(os.path.abspath(__file__)))
sys.path.insert(0, os.path.join(V, 'engine')); sys.path.insert(0, os.path.join(V, 'rules'))
props = {json.loads(l)['id']: json.loads(l) for l in open(os.path.join(V, 'properties.jsonl'))}
det = json.load(open(os.path.join(V, 'seeded', 'DETECTION.json')))
fired = {}
for pid in props:
    ev = json.load(open(os.path.join(V, 'evidence', pid + '.json')))
    for n in ev['coverage'].get('notes', []):
        if n.startswith('self-test: '):
            for rec in json.loads(n[len('self-test: '):]):
                m = re.match(r'seeded/(\w+)/patch\.diff', rec.get('patch', ''))
                if m:
                    fired[m.group(1)] = rec.get('fired') or ([] if not rec.get('skipped') else ['(skipped: ' + rec['skipped'][:40] + ')'])
sec5 = []
for pid in sorted(props):
    mod = importlib.import_module(pid)
    ev = json.load(open(os.path.join(V, 'evidence', pid + '.json')))
    rules = ev['coverage']['rules']
    sec5.append(f"### {pid} — {props[pid]['title']}\n")
    sec5.append("*Decided.* " + textwrap.fill(mod.EXPLANATION, 100) + "\n")
    sec5.append("*Not decided.* " + textwrap.fill(mod.NOT_DECIDED, 100) + "\n")
    rr = ', '.join(f"{k} {v['discharged']}/{v['obligations']}" for k, v in rules.items())
    sec5.append(f"*Rule instances on the current tree, tier {ev['tier']} (discharged/obligations).* {rr}; anchors {ev['coverage']['anchors_resolved']}; "
                f"known findings printed: {', '.join(ev['coverage'].get('known_findings_printed') or []) or 'none'}.\n")
    seeds = sorted(d for d in os.listdir(os.path.join(V, 'seeded')) if d.startswith(pid) and os.path.isdir(os.path.join(V, 'seeded', d)))
    for sd in seeds:
        mp = os.path.join(V, 'seeded', sd, 'meta.json')
        if not os.path.exists(mp):
            continue
        meta = json.load(open(mp))
        summ = re.sub(r'\s+', ' ', meta.get('summary', ''))
        summ = summ[:300] + ('…' if len(summ) > 300 else '')
        d = det.get(sd, {})
        sec5.append(f"*Seeded change `seeded/{sd}/` (round {d.get('round', '?')}; {d.get('first_seen', '?')}).* " + textwrap.fill(summ, 100) +
                    f"\n  Reported by: {d.get('reported_by', '?')}" + (f" — thorough self-test fired: {', '.join(fired[sd])}" if sd in fired else '') + ".\n")
    ben = sorted(os.path.basename(x) for x in glob.glob(os.path.join(V, 'selftest', 'benign', pid + '_*.diff')))
    mut = sorted(os.path.basename(x) for x in glob.glob(os.path.join(V, 'selftest', 'mutants', pid + '_*.diff')))
    if ben or mut:
        sec5.append("*Controls.* " + '; '.join(['benign (must stay silent): ' + b for b in ben] + ['mutant (must fire): ' + m for m in mut]) + ".\n")
# seed statistics
rows = ["| seed | round | first seen | reported by |", "|------|-------|------------|-------------|"]
stat = {}
for sd in sorted(det):
    d = det[sd]
    rows.append(f"| {sd} | {d['round']} | {d['first_seen']} | {d['reported_by']} |")
    if d['round'] > 1:
        k = 'hit' if d['first_seen'].startswith('detected') else 'miss'
        stat.setdefault(d['round'], {'hit': 0, 'miss': 0})[k] += 1
stats = '; '.join(f"round {r}: {v['hit']} of {v['hit'] + v['miss']} detected as the rules stood" for r, v in sorted(stat.items()))
head = open(os.path.join(V, 'docs', 'design_head.md')).read()
tail = open(os.path.join(V, 'docs', 'design_tail.md')).read()
tail = tail.replace('@@SEED_TABLE@@', '\n'.join(rows)).replace('@@SEED_STATS@@', stats).replace('@@N_SEEDS@@', str(len(det)))
open(os.path.join(V, 'DESIGN.md'), 'w').write(head + '\n'.join(sec5) + '\n' + tail)
print('DESIGN.md', len(head) + len(tail), 'static chars;', len(sec5), 'generated blocks;', stats)

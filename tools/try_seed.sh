#!/bin/sh
# usage: tools/try_seed.sh <patch.diff> <Cxx>   -- apply a candidate change to /repo, run the check, undo, refresh evidence on the clean tree
set -u
P="$1"; C="$2"
git -C /repo status --short | grep -q . && { echo "/repo not clean"; exit 2; }
git -C /repo apply -3 "$P" || exit 2
/verif/check "$C" | grep -E "rule=|^\[C|^     |Error|Trace" | cut -c1-300
git -C /repo reset -q --hard HEAD
/verif/check "$C" | grep -E "^\[C|VIOLATION" | sed 's/^/clean: /'

"""Exploration prelude: exec(open('/verif/tools/explore.py').read()) -> prog, cx, core, api, re"""
import sys, re
sys.path.insert(0, '/verif/engine'); sys.path.insert(0, '/verif/rules')
import facts, core, api
crates, info = facts.load('FULL')
prog = core.Program(crates)
cx = api.Ctx('X', prog, info, 'quick')
def props(f, bb): return [api.shorten(x) for x in (core.path_props(f, bb) or [])]
def show(sites, f=None):
    for s in sites:
        print(s.key(), s.loc, s.term[:400], s.extra, props(s.fn, s.bb) if hasattr(s, 'fn') else '')

#!/usr/bin/env python3
"""Run the pinned baseline suite in a checkout and compare with BASELINE.json's stable_pass.
usage: baseline.py <repo-dir> [extra cargo-nextest args]   (exit 0 iff every stable test passes)"""
import ast, json, os, re, subprocess, sys
d = sys.argv[1]
b = json.load(open('/root/.vp/BASELINE.json'))
stable = set(ast.literal_eval(b['stable_pass']))
env = dict(os.environ, CARGO_NET_OFFLINE='true')
cmd = ['cargo', 'nextest', 'run', '--workspace', '--no-fail-fast', '--tool-config-file', 'pb:/w/lib/nextest.toml',
       '--profile', 'pb', '--test-threads', '8', '--offline'] + sys.argv[2:]
p = subprocess.run(cmd, cwd=d, env=env, stdout=subprocess.PIPE, stderr=subprocess.STDOUT, text=True)
passed = set()
for line in p.stdout.splitlines():
    m = re.match(r'\s*(PASS|FAIL|SIGABRT|SIGSEGV|TIMEOUT)\s+\[[^\]]*\]\s+(?:\(\s*\d+/\d+\)\s+)?(\S+)\s+(\S+)', line)
    if m and m.group(1) == 'PASS':
        passed.add(m.group(2) + '::' + m.group(3))
missing = sorted(stable - passed)
print(f'stable={len(stable)} passed_now={len(passed)} stable_not_passing={len(missing)}')
for t in missing: print('  NOT-PASSING', t)
if not passed:
    print(p.stdout[-3000:])
sys.exit(1 if missing or not passed else 0)

#!/usr/bin/env python3
"""Run the pinned baseline suite in a checkout and compare with BASELINE.json's stable_pass.
usage: baseline.py <repo-dir>   (exit 0 iff every stable test passes)"""
import ast, json, os, re, subprocess, sys
import xml.etree.ElementTree as ET
d = os.path.abspath(sys.argv[1])
b = json.load(open('/root/.vp/BASELINE.json'))
stable = b['stable_pass']
if isinstance(stable, str):
    stable = ast.literal_eval(stable)
stable = set(stable)
env = dict(os.environ, CARGO_NET_OFFLINE='true')
junit = os.path.join(env.get('CARGO_TARGET_DIR', os.path.join(d, 'target')), 'nextest', 'pb', 'junit.xml')
if os.path.exists(junit):
    os.remove(junit)
cmd = ['cargo', 'nextest', 'run', '--workspace', '--no-fail-fast', '--tool-config-file', 'pb:/w/lib/nextest.toml',
       '--profile', 'pb', '--test-threads', '8', '--offline'] + sys.argv[2:]
p = subprocess.run(cmd, cwd=d, env=env, stdout=subprocess.PIPE, stderr=subprocess.STDOUT, text=True)
passed, failed = set(), set()
if os.path.exists(junit):
    for suite in ET.parse(junit).getroot().iter('testsuite'):
        sname = suite.get('name')
        for tc in suite.iter('testcase'):
            tid = f"{sname}::{tc.get('name')}"
            bad = any(ch.tag in ('failure', 'error') for ch in tc)
            (failed if bad else passed).add(tid)
missing = sorted(stable - passed)
print(f'stable={len(stable)} passed_now={len(passed)} failed_now={len(failed)} stable_not_passing={len(missing)}')
for t in missing[:40]:
    print('  NOT-PASSING', t)
if not passed:
    print(p.stdout[-3000:])
sys.exit(1 if missing or not passed else 0)

#!/usr/bin/env python3
"""Regenerate rules/known_fns.json: the paths of all functions of the analysed crates on the current tree (FULL and AWSLC configurations).
Run after a reviewed change of the rule files; engine/inline.py treats small private functions that are NOT in this list as
transparent helpers (looked through at their call sites).  Never used as a verdict."""
import sys, os, json
V = os.path.dirname(os.path.dirname(os.path.abspath(__file__)))
sys.path.insert(0, os.path.join(V, 'engine'))
os.environ['VERIF_NO_INLINE'] = '1'
import facts, core
names = set()
params = {}
for cfg in ('FULL', 'AWSLC'):
    crates, info = facts.load(cfg)
    prog = core.Program(crates)
    names |= {p for p in prog.fns if '{closure' not in p}
    for p, f in prog.fns.items():
        # parameter names of non-pub functions with at least two parameters (engine/core.py: parameter-order normalisation)
        if '{closure' in p or f.meta.get('vis') == 'pub' or f.argc < 2:
            continue
        nm = [f.varname.get(i) for i in range(1, f.argc + 1)]
        if None not in nm and len(set(nm)) == len(nm):
            params[p] = nm
json.dump(params, open(os.path.join(V, 'rules', 'known_params.json'), 'w'), indent=0, sort_keys=True)
print(len(params), 'private functions with named parameters')
names = sorted(names)
json.dump(names, open(os.path.join(V, 'rules', 'known_fns.json'), 'w'), indent=0)
print(len(names), 'function paths')

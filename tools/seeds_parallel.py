#!/usr/bin/env python3
"""Run every seeded defect (seeded/<id>/patch.diff) and every selftest mutant against the checks of its property, each in its own
scratch worktree of /repo HEAD (VERIF_REPO), N at a time.  Prints the ones that are NOT reported.  Does not touch /repo or evidence of
the clean tree (evidence files of the touched properties are refreshed by a final clean run)."""
import os, re, subprocess, sys, tempfile, json, glob
from concurrent.futures import ThreadPoolExecutor
V = os.path.dirname(os.path.dirname(os.path.abspath(__file__)))
N = int(sys.argv[1]) if len(sys.argv) > 1 else 4
jobs = []
for d in sorted(glob.glob(os.path.join(V, 'seeded', 'C*'))):
    pd = os.path.join(d, 'patch.diff')
    if os.path.exists(pd):
        jobs.append((os.path.basename(d), os.path.basename(d)[:3], pd, True))
for pd in sorted(glob.glob(os.path.join(V, 'selftest', 'mutants', 'C*.diff'))):
    jobs.append((os.path.basename(pd), os.path.basename(pd)[:3], pd, True))
if '--benign' in sys.argv:
    for pd in sorted(glob.glob(os.path.join(V, 'selftest', 'benign', 'C*.diff'))):
        jobs.append((os.path.basename(pd), os.path.basename(pd)[:3], pd, False))
os.makedirs('/tmp/wt', exist_ok=True)

def run(job):
    name, prop, pd, must_fire = job
    d = tempfile.mkdtemp(prefix='sp.', dir='/tmp/wt')
    try:
        r = subprocess.run(['git', '-C', '/repo', 'worktree', 'add', '--detach', '-f', d, 'HEAD', '-q'], capture_output=True, text=True)
        a = subprocess.run(['git', 'apply', '-3', pd], cwd=d, capture_output=True, text=True)
        if a.returncode != 0:
            return name, 'PATCH-DOES-NOT-APPLY', ''
        env = dict(os.environ, VERIF_REPO=d, VERIF_EVIDENCE_DIR=tempfile.mkdtemp(prefix='ev.', dir='/tmp/wt'))
        c = subprocess.run([os.path.join(V, 'check'), prop], capture_output=True, text=True, env=env)
        m = re.search(r'violations=(\d+)', c.stdout)
        nv = int(m.group(1)) if m else -1
        rules = sorted(set(re.findall(r'rule=(\S+)', c.stdout)))
        ok = (nv > 0) if must_fire else (nv == 0)
        return name, ('ok' if ok else ('NOT-REPORTED' if must_fire else 'FALSE-ALARM')), ','.join(rules)[:80] + ('' if m else ' ' + c.stdout[-200:] + c.stderr[-200:])
    finally:
        subprocess.run(['git', '-C', '/repo', 'worktree', 'remove', '--force', d], capture_output=True)
with ThreadPoolExecutor(N) as ex:
    res = list(ex.map(run, jobs))
bad = [r for r in res if r[1] != 'ok']
for r in res:
    if r[1] != 'ok':
        print(*r)
print(f'{len(res)} patches, {len(bad)} not as expected')
json.dump(res, open(os.path.join(V, 'seeded', 'RESULTS.json'), 'w'), indent=0)

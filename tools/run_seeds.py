#!/usr/bin/env python3
"""Apply every stored seeded defect to /repo (3-way, so patches made before the fix: commits still apply),
run the check of the property it breaks (and, with --all, every check), restore /repo, and write
seeded/RESULTS.json.  usage: run_seeds.py [--all] [ids...]"""
import json, os, subprocess, sys, time
V = '/verif'
args = [a for a in sys.argv[1:] if not a.startswith('--')]
ALL = '--all' in sys.argv
ids = args or sorted(d for d in os.listdir(f'{V}/seeded') if os.path.isdir(f'{V}/seeded/{d}'))
head = subprocess.check_output(['git', '-C', '/repo', 'rev-parse', '--short', 'HEAD'], text=True).strip()
assert subprocess.check_output(['git', '-C', '/repo', 'status', '--porcelain'], text=True).strip() == '', '/repo is not clean'
checks = sorted(f[:-3] for f in os.listdir(f'{V}/rules') if f.startswith('C') and f.endswith('.py'))
res_path = f'{V}/seeded/RESULTS.json'
results = json.load(open(res_path)) if os.path.exists(res_path) else {}
for sid in ids:
    meta = json.load(open(f'{V}/seeded/{sid}/meta.json'))
    prop = meta['property']
    r = subprocess.run(['git', '-C', '/repo', 'apply', '-3', f'{V}/seeded/{sid}/patch.diff'], stdout=subprocess.PIPE, stderr=subprocess.STDOUT, text=True)
    entry = {'property': prop, 'repo_head': head, 'applied': r.returncode == 0}
    try:
        if r.returncode != 0:
            entry['apply_error'] = r.stdout[-300:]
        else:
            run = [prop] if prop in checks else []
            if ALL:
                run = run + [c for c in checks if c != prop]
            entry['fired'] = {}
            for c in run:
                p = subprocess.run([f'{V}/check', c], cwd=V, stdout=subprocess.PIPE, stderr=subprocess.STDOUT, text=True)
                rules = sorted({l.split('rule=')[1].split()[0] for l in p.stdout.splitlines() if l.strip().startswith('rule=')})
                if p.returncode != 0:
                    entry['fired'][c] = rules
            entry['detected_by_own_check'] = prop in entry['fired']
            entry['detected'] = bool(entry['fired'])
    finally:
        subprocess.run(['git', '-C', '/repo', 'reset', '-q', '--hard', 'HEAD'])
    results[sid] = entry
    print(sid, json.dumps(entry))
    json.dump(results, open(res_path, 'w'), indent=1, sort_keys=True)
# leave evidence files describing the unchanged tree
for c in {e['property'] for e in results.values() if e['property'] in checks}:
    subprocess.run([f'{V}/check', c], cwd=V, stdout=subprocess.DEVNULL)
